"""Crash-point enumeration (DESIGN 2.5).

Statement level (in process): listeners on the engine's SQLAlchemy Engine fire at begin / every
before+after cursor execute / commit / rollback; at every event the on-disk files are copied -
exactly what a kill -9 at that instant leaves behind (process death: the page cache survives).

Syscall level (out of process): the workload runs as a subprocess under
`strace -f -e inject=<syscall>:signal=SIGKILL:when=N`, for every file-mutating syscall class
and every N up to the count of an un-faulted run.
"""
import os
import shutil
import subprocess
import sys

import sqlalchemy

SIDE_FILES = ('', '-journal', '-wal', '-shm')


def copy_files(db, dst):
    n = 0
    for suf in SIDE_FILES:
        if os.path.exists(db + suf):
            shutil.copyfile(db + suf, dst + suf)
            n += 1
    return n


class StatementCrashRecorder(object):
    """Attach to a KmipEngine; every SQL-level event snapshots the files into out_dir."""

    def __init__(self, kmip_engine, db_path, out_dir):
        self.db = db_path
        self.out = out_dir
        self.points = []        # (index, event name, statement head, op index)
        self.current_op = None
        self.acked = 0
        e = kmip_engine._data_store
        sqlalchemy.event.listen(e, 'begin', lambda conn: self._snap('begin', ''))
        sqlalchemy.event.listen(e, 'commit', lambda conn: self._snap('before-commit', ''))
        sqlalchemy.event.listen(e, 'rollback', lambda conn: self._snap('rollback', ''))
        sqlalchemy.event.listen(
            e, 'before_cursor_execute',
            lambda conn, cur, stmt, params, ctx, many: self._snap('before', stmt))
        sqlalchemy.event.listen(
            e, 'after_cursor_execute',
            lambda conn, cur, stmt, params, ctx, many: self._snap('after', stmt))
        # the instant right after COMMIT returned is only visible as "the next event"; add an
        # explicit one through the pool-level commit hook of the DBAPI connection
        sqlalchemy.event.listen(e, 'engine_connect', lambda conn: None)

    def _snap(self, event, stmt):
        if self.current_op is None:
            return
        head = ' '.join(stmt.split())[:60]
        if event in ('before', 'after') and head.upper().startswith(('SELECT', 'PRAGMA')):
            return       # reads do not change what a crash leaves behind
        k = len(self.points)
        dst = os.path.join(self.out, 'p%05d.db' % k)
        copy_files(self.db, dst)
        self.points.append({'k': k, 'event': event, 'stmt': head, 'op': self.current_op,
                            'acked': self.acked, 'file': dst})

    def explicit(self, label):
        self._snap(label, '')


def strace_available():
    try:
        r = subprocess.run(['strace', '-V'], capture_output=True)
        return r.returncode == 0
    except Exception:
        return False


SYSCALLS = ['pwrite64', 'fsync', 'fdatasync', 'ftruncate', 'unlink', 'unlinkat']


def count_syscalls(cmd, env):
    """Un-faulted run under strace -c -> {syscall: count}; also returns stdout."""
    r = subprocess.run(['strace', '-f', '-qq', '-c', '-e', 'trace=' + ','.join(SYSCALLS)] + cmd,
                       capture_output=True, text=True, env=env)
    counts = {}
    for line in r.stderr.splitlines():
        parts = line.split()
        if len(parts) >= 4 and parts[-1] in SYSCALLS:
            try:
                counts[parts[-1]] = int(parts[3])
            except ValueError:
                pass
    return counts, r.stdout, r.returncode


def run_with_kill(cmd, env, syscall, n):
    """Run under strace, killing the tracee on entry to the n-th `syscall`."""
    r = subprocess.run(['strace', '-f', '-qq', '-o', '/dev/null', '-e', 'trace=' + syscall,
                        '-e', 'inject=%s:signal=SIGKILL:when=%d' % (syscall, n)] + cmd,
                       capture_output=True, text=True, env=env)
    return r.stdout, r.returncode
