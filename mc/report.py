"""Evidence, known findings, replay artefacts, exit codes (DESIGN 2.6, 2.8)."""
import hashlib
import json
import os
import sys
import time

ROOT = os.path.dirname(os.path.dirname(os.path.abspath(__file__)))
FINDINGS_FILE = os.path.join(ROOT, 'known_findings.json')
MAX_VIOLATION_LINES = 25


def load_findings(prop):
    if not os.path.exists(FINDINGS_FILE):
        return {}, {}
    doc = json.load(open(FINDINGS_FILE))
    open_, fixed = {}, {}
    for e in doc.get('findings', []):
        if e.get('property') != prop:
            continue
        (open_ if e.get('status') == 'open' else fixed)[e['key']] = e
    return open_, fixed


def jsonable(x):
    if isinstance(x, (str, int, float, bool)) or x is None:
        return x
    if isinstance(x, bytes):
        return 'hex:' + x.hex()
    if isinstance(x, dict):
        return {str(k): jsonable(v) for k, v in x.items()}
    if isinstance(x, (list, tuple, set, frozenset)):
        return [jsonable(v) for v in x]
    return repr(x)


class Reporter(object):
    def __init__(self, prop, level, tier, seed):
        self.prop = prop
        self.level = level
        self.tier = tier
        self.seed = seed
        self.t0 = time.time()
        self.open_findings, self.fixed_findings = load_findings(prop)
        self.seen_known = {}
        self.violations = {}     # key -> (what, replay path)
        self.harness_errors = []
        self.samples = []
        self.counters = {}

    # ---- bookkeeping -------------------------------------------------------------------
    def count(self, name, n=1):
        self.counters[name] = self.counters.get(name, 0) + n

    def sample(self, s, cap=6):
        if len(self.samples) < cap:
            self.samples.append(jsonable(s))

    def harness_error(self, what):
        self.harness_errors.append(what)

    def violation(self, key, what, replay):
        """Record one failing case. key: stable identity of the failing case."""
        if key in self.open_findings:
            self.seen_known.setdefault(key, what)
            return
        if key in self.violations:
            return
        d = os.path.join(os.environ.get('VERIF_REPLAY_DIR') or os.path.join(ROOT, 'replays'), self.prop)
        os.makedirs(d, exist_ok=True)
        h = hashlib.sha1(key.encode()).hexdigest()[:12]
        path = os.path.join(d, h + '.json')
        doc = {'property': self.prop, 'key': key, 'what': what, 'seed': self.seed,
               'replay': jsonable(replay)}
        with open(path, 'w') as f:
            json.dump(doc, f, indent=1, sort_keys=True)
        self.violations[key] = (what, path)

    def merge(self, part):
        """Merge a worker's partial result: dict(violations=[(key, what, replay)], counters={},
        samples=[], errors=[])."""
        for key, what, replay in part.get('violations', []):
            self.violation(key, what, replay)
        for k, v in part.get('counters', {}).items():
            self.count(k, v)
        for s in part.get('samples', []):
            self.sample(s)
        for e in part.get('errors', []):
            self.harness_error(e)

    # ---- finish ------------------------------------------------------------------------
    def finish(self, coverage, assumptions=()):
        coverage = dict(coverage)
        coverage.setdefault('samples', self.samples or ['(none recorded)'])
        coverage['known_findings_seen'] = sorted(self.seen_known)
        ev = {
            'property_id': self.prop, 'tier': self.tier, 'seed': int(self.seed),
            'level': self.level, 'coverage': jsonable(coverage),
            'assumptions': list(assumptions),
            'wall_s': round(time.time() - self.t0, 2),
            'violations': len(self.violations),
        }
        evdir = os.environ.get('VERIF_EVIDENCE_DIR') or os.path.join(ROOT, 'evidence')
        os.makedirs(evdir, exist_ok=True)
        with open(os.path.join(evdir, self.prop + '.json'), 'w') as f:
            json.dump(ev, f, indent=1, sort_keys=True)
        for key in sorted(self.seen_known):
            print("KNOWN-FINDING: property=%s %s [%s]" % (
                self.prop, self.open_findings[key].get('what', self.seen_known[key]), key))
        for key in sorted(self.open_findings):
            if key not in self.seen_known:
                print("NOTE: listed finding not reproduced in this run: %s" % key)
        n = 0
        for key in sorted(self.violations):
            what, path = self.violations[key]
            if n < MAX_VIOLATION_LINES:
                print("VIOLATION property=%s replay=%s" % (self.prop, path))
                print("   key:  %s" % key)
                print("   what: %s" % what)
            n += 1
        if n > MAX_VIOLATION_LINES:
            print("... %d more distinct violations (see replays/%s/)" % (
                n - MAX_VIOLATION_LINES, self.prop))
        cov_brief = {k: v for k, v in coverage.items() if isinstance(v, (int, float, bool))}
        print("%s %s seed=%s: %s violations=%d known=%d wall=%.1fs" % (
            self.prop, self.tier, self.seed, json.dumps(cov_brief, sort_keys=True),
            len(self.violations), len(self.seen_known), time.time() - self.t0))
        for e in self.harness_errors[:10]:
            print("HARNESS-ERROR: %s" % e)
        if self.violations:
            return 1
        return 2 if self.harness_errors else 0


class Part(object):
    """Partial result built inside a worker; picklable via .as_dict()."""

    def __init__(self):
        self.violations = []
        self.counters = {}
        self.samples = []
        self.errors = []
        self._keys = set()

    def count(self, name, n=1):
        self.counters[name] = self.counters.get(name, 0) + n

    def violation(self, key, what, replay):
        if key in self._keys:
            return
        self._keys.add(key)
        self.violations.append((key, what, jsonable(replay)))

    def sample(self, s, cap=3):
        if len(self.samples) < cap:
            self.samples.append(jsonable(s))

    def error(self, what):
        self.errors.append(what)

    def as_dict(self):
        return dict(violations=self.violations, counters=self.counters, samples=self.samples,
                    errors=self.errors)
