"""Stateless schedule exploration for real Python threads (CHESS-style iterative preemption
bounding). One baton: exactly one thread runs at a time; every other thread is parked on its own
semaphore. Threads stop AT schedule points (before the shared step); the scheduler decides who
takes the next step.

Schedule points:
  * SchedLock.acquire / release (replaces the engine's RLock; blocking happens here, never in the OS)
  * `call` (and optionally `line`) trace events of frames whose code lives in the traced files
  * EngineProxy: any attribute access from session code outside a whitelist of pure attributes
"""
import sys
import threading

HANG_S = 120.0


class Deadlock(Exception):
    pass


class HarnessError(Exception):
    pass


class _T(object):
    def __init__(self, tid, body):
        self.tid = tid
        self.body = body
        self.sem = threading.Semaphore(0)
        self.finished = False
        self.blocked_on = None
        self.exc = None
        self.thread = None
        self.at = 'start'
        self.wants = None


class Scheduler(object):
    def __init__(self, prefix=(), trace_files=(), line_level=False, max_points=200000,
                 skip_codes=()):
        self.prefix = list(prefix)
        self.trace_files = tuple(trace_files)
        self.line_level = line_level
        self.threads = []
        self.ctrl = threading.Semaphore(0)
        self.current = None
        self.points = []          # per decision: dict(enabled=[tids], chosen=idx, running_enabled=bool)
        self.choices = []
        self.max_points = max_points
        self.aborting = False
        self.step_log = []
        self.skip_codes = tuple(skip_codes)

    # ---- called from worker threads ------------------------------------------------------
    def point(self, what):
        """The running thread reaches a schedule point: park until chosen again."""
        me = self.current
        if me is None or threading.current_thread() is not me.thread:
            return      # code running outside the controlled threads (set-up, reference runs)
        if self.aborting:
            raise SystemExit
        me.at = what
        self.ctrl.release()
        if not me.sem.acquire(timeout=HANG_S):
            raise SystemExit
        if self.aborting:
            raise SystemExit

    def block(self, lock):
        me = self.current
        me.blocked_on = lock
        self.ctrl.release()
        if not me.sem.acquire(timeout=HANG_S):
            raise SystemExit
        if self.aborting:
            raise SystemExit

    def _tracer(self, frame, event, arg):
        if event == 'call':
            fn = frame.f_code.co_filename
            if fn.endswith(self.trace_files):
                if frame.f_code in self.skip_codes:
                    return None
                self.point('call:%s' % frame.f_code.co_name)
                return self._line_tracer if self.line_level else None
            return None
        return None

    def _line_tracer(self, frame, event, arg):
        if event == 'line':
            self.point('line:%s:%d' % (frame.f_code.co_name, frame.f_lineno))
        return self._line_tracer

    def _run_thread(self, t):
        t.sem.acquire()
        try:
            if self.aborting:
                return
            if self.trace_files:
                sys.settrace(self._tracer)
            try:
                t.body()
            finally:
                sys.settrace(None)
        except SystemExit:
            pass
        except BaseException as e:     # noqa
            t.exc = e
        finally:
            t.finished = True
            self.ctrl.release()

    # ---- called from the controlling thread -----------------------------------------------
    def run(self, bodies):
        self.threads = [_T(i, b) for i, b in enumerate(bodies)]
        for t in self.threads:
            t.thread = threading.Thread(target=self._run_thread, args=(t,), daemon=True)
            t.thread.start()
        running = None
        n = 0
        try:
            # normal form: every thread first runs (alone, in id order) to its first schedule
            # point; the code before it is thread-local, so this loses no behaviour
            for t in self.threads:
                self.current = t
                t.sem.release()
                if not self.ctrl.acquire(timeout=HANG_S):
                    raise HarnessError("thread %d did not reach its first schedule point" % t.tid)
            while True:
                alive = [t for t in self.threads if not t.finished]
                if not alive:
                    break
                enabled = [t for t in alive if t.blocked_on is None and not (
                    t.wants is not None and t.wants.owner not in (None, t))]
                if not enabled:
                    raise Deadlock("no enabled thread; blocked: %s" % (
                        [(t.tid, t.at) for t in alive],))
                # canonical order: the running thread first if still enabled, then ascending ids
                order = sorted(enabled, key=lambda t: (0 if t is running else 1, t.tid))
                k = len(self.choices)
                if k < len(self.prefix):
                    c = self.prefix[k]
                    if c >= len(order):
                        raise HarnessError("schedule prefix diverged at decision %d: choice %d of %d"
                                           % (k, c, len(order)))
                else:
                    c = 0
                self.points.append({'enabled': [t.tid for t in order],
                                    'running_enabled': running in enabled,
                                    'at': [t.at for t in order]})
                self.choices.append(c)
                t = order[c]
                running = t
                self.current = t
                self.step_log.append(t.tid)
                t.sem.release()
                if not self.ctrl.acquire(timeout=HANG_S):
                    raise HarnessError("thread %d did not reach a schedule point within %ss (at %s)"
                                       % (t.tid, HANG_S, t.at))
                n += 1
                if n > self.max_points:
                    raise HarnessError("more than %d schedule points" % self.max_points)
        finally:
            self.current = None
            self.aborting = True
            for t in self.threads:
                if not t.finished:
                    t.sem.release()
            for t in self.threads:
                t.thread.join(timeout=5)
        return self

    def preemptions_before(self, i):
        n = 0
        for j in range(i):
            p = self.points[j]
            if p['running_enabled'] and self.choices[j] != 0:
                n += 1
        return n


class SchedLock(object):
    """Re-entrant lock whose blocking is visible to the scheduler."""

    def __init__(self, sched):
        self.sched = sched
        self.owner = None
        self.depth = 0

    def acquire(self, blocking=True, timeout=-1):
        s = self.sched
        me = s.current
        if me is None or threading.current_thread() is not me.thread:
            self.depth += 1     # uncontrolled context (set-up): behave as a free re-entrant lock
            return True
        if self.owner is me:
            self.depth += 1
            return True
        if blocking and timeout is not None and timeout >= 0:
            # a TIMED wait: the explorer may let the timeout expire whenever the lock is held by
            # another thread (any finite timeout can be outlasted by a slow holder), so the thread
            # stays enabled; scheduled while the lock is still held = the wait timed out
            s.point('lock.acquire.timed')
            if self.owner is not None and self.owner is not me:
                return False
            self.owner = me
            self.depth = 1
            return True
        if not blocking:
            s.point('lock.acquire.try')
            if self.owner is not None and self.owner is not me:
                return False
            self.owner = me
            self.depth = 1
            return True
        # parked here the thread counts as disabled while another thread holds the lock
        me.wants = self
        try:
            s.point('lock.acquire')
            while self.owner is not None and self.owner is not me:
                s.block(self)
        finally:
            me.wants = None
        self.owner = me
        self.depth = 1
        return True

    def release(self):
        s = self.sched
        me = s.current
        if me is None or threading.current_thread() is not me.thread:
            self.depth -= 1
            return
        self.depth -= 1
        if self.depth == 0:
            self.owner = None
            for t in s.threads:
                if t.blocked_on is self:
                    t.blocked_on = None
            s.point('lock.release')

    __enter__ = acquire

    def __exit__(self, *a):
        self.release()


class EngineProxy(object):
    """What session code sees instead of the engine: every access to an attribute outside the
    whitelist of pure ones is a schedule point (shared state touched outside the lock)."""
    PURE = ('default_protocol_version', 'process_request', 'build_error_response')

    def __init__(self, engine, sched):
        object.__setattr__(self, '_e', engine)
        object.__setattr__(self, '_s', sched)

    def __getattr__(self, name):
        if name not in EngineProxy.PURE:
            self._s.point('session.get:%s' % name)
        return getattr(self._e, name)

    def __setattr__(self, name, value):
        self._s.point('session.set:%s' % name)
        setattr(self._e, name, value)


def explore(run_one, bound, on_execution, max_executions=None):
    """Iterative preemption bounding: all schedules with 0 preemptions, then 1, ... up to `bound`,
    each explored exactly once. run_one(prefix) -> Scheduler (already run).
    on_execution(sched, prefix) is called for every complete execution; return True to stop.
    Returns dict(executions, completed_bound, capped, per_bound)."""
    stats = {'executions': 0, 'capped': False, 'completed_bound': -1, 'per_bound': {}}
    levels = [[] for _ in range(bound + 1)]
    levels[0].append([])
    for b in range(bound + 1):
        work = levels[b]
        while work:
            prefix = work.pop()
            s = run_one(prefix)
            stats['executions'] += 1
            stats['per_bound'][b] = stats['per_bound'].get(b, 0) + 1
            if on_execution(s, prefix):
                return stats
            if max_executions and stats['executions'] >= max_executions:
                stats['capped'] = True
                return stats
            for i in range(len(prefix), len(s.points)):
                p = s.points[i]
                base = s.preemptions_before(i)
                c = base + (1 if p['running_enabled'] else 0)
                if c > bound:
                    continue
                for alt in range(1, len(p['enabled'])):
                    levels[c].append(s.choices[:i] + [alt])
        stats['completed_bound'] = b
    return stats
