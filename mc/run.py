import argparse
import importlib
import json
import os
import sys
import warnings

warnings.simplefilter('ignore')

CHECKS = {
    'C01': 'checks.c01_roundtrip', 'C02': 'checks.c02_wellformed', 'C03': 'checks.c03_access',
    'C04': 'checks.c04_lifecycle', 'C05': 'checks.c05_fidelity', 'C06': 'checks.c06_crypto',
    'C07': 'checks.c07_identifiers', 'C08': 'checks.c08_batch', 'C09': 'checks.c09_crash',
    'C10': 'checks.c10_concurrency', 'C11': 'checks.c11_isolation', 'C12': 'checks.c12_session',
    'C13': 'checks.c13_no_general_failure', 'C14': 'checks.c14_locate',
    'C15': 'checks.c15_attributes', 'C16': 'checks.c16_versions', 'C17': 'checks.c17_identity',
    'C18': 'checks.c18_policies', 'C19': 'checks.c19_client', 'C20': 'checks.c20_secrets',
}


def _watchdog(prop, tier):
    """No registered command may hang: past the budget (several times the slowest run on the
    unchanged tree) the check stops with a harness error - it does not claim a violation."""
    import multiprocessing
    import signal
    budget = int(os.environ.get('VERIF_WATCHDOG_S', '0') or (2400 if tier == 'quick' else 6 * 3600))

    def fire(signum, frame):
        print("HARNESS-ERROR: %s (%s tier) did not finish within %d s; code under test that loops "
              "or grows without bound shows up like this" % (prop, tier, budget), flush=True)
        for c in multiprocessing.active_children():
            try:
                c.kill()
            except Exception:   # noqa
                pass
        os._exit(2)
    signal.signal(signal.SIGALRM, fire)
    signal.alarm(budget)


def main():
    ap = argparse.ArgumentParser()
    ap.add_argument('prop')
    ap.add_argument('--tier', default=os.environ.get('VERIF_TIER', 'quick'),
                    choices=['quick', 'thorough'])
    ap.add_argument('--replay')
    a = ap.parse_args()
    seed = int(os.environ.get('VERIF_SEED', '0') or 0)
    mod = importlib.import_module(CHECKS[a.prop])
    if a.replay:
        doc = json.load(open(a.replay))
        bad, text = mod.replay(doc['replay'])
        print(text)
        print("replay: %s" % ("still violates" if bad else "does not violate"))
        sys.exit(1 if bad else 0)
    _watchdog(a.prop, a.tier)
    sys.exit(mod.run(a.tier, seed))


if __name__ == '__main__':
    main()
