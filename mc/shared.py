"""Shared-state audit: which module-level / class-level mutable objects of the kmip package (and
which extra objects handed in by the caller, e.g. a configuration shared by all sessions) change
while ONE request is served? Code that mutates such state runs outside the engine's per-request
lock discipline unless proven otherwise, so the schedule explorer turns the modules that own it
into schedule points. The audit never reports a violation itself; it only widens the exploration.
"""
import enum
import sys
import types

_SKIP_TYPES = (types.FunctionType, types.BuiltinFunctionType, types.ModuleType, type, property,
               staticmethod, classmethod, types.MethodType)


def _fp(x, depth, seen):
    """Structural fingerprint (no object identities), depth-limited."""
    if isinstance(x, (str, bytes, int, float, bool, type(None), enum.Enum)):
        return repr(x)
    if id(x) in seen:
        return '<cycle>'
    if depth <= 0:
        return '<%s>' % type(x).__name__
    seen = seen | {id(x)}
    if isinstance(x, dict):
        try:
            items = sorted((repr(k), _fp(v, depth - 1, seen)) for k, v in list(x.items()))
        except Exception:   # noqa
            return '<dict?>'
        return '{%s}' % ','.join('%s:%s' % kv for kv in items)
    if isinstance(x, (list, tuple)):
        return '[%s]' % ','.join(_fp(v, depth - 1, seen) for v in list(x))
    if isinstance(x, (set, frozenset)):
        return 'set(%s)' % ','.join(sorted(_fp(v, depth - 1, seen) for v in list(x)))
    if isinstance(x, bytearray):
        return 'ba:' + bytes(x).hex()
    if isinstance(x, _SKIP_TYPES):
        return '<%s>' % type(x).__name__
    mod = type(x).__module__ or ''
    if not mod.startswith('kmip'):
        return '<%s.%s>' % (mod, type(x).__name__)
    d = getattr(x, '__dict__', None)
    if d is None:
        return '<%s>' % type(x).__name__
    return '%s(%s)' % (type(x).__name__, _fp(d, depth - 1, seen))


def _candidate(v):
    if isinstance(v, (dict, list, set, bytearray)):
        return True
    if isinstance(v, _SKIP_TYPES) or isinstance(v, (str, bytes, int, float, bool, type(None), enum.Enum,
                                                     tuple, frozenset)):
        return False
    return (type(v).__module__ or '').startswith('kmip') and hasattr(v, '__dict__')


def snapshot(extra=None, depth=4):
    """{(module, path): fingerprint} for every mutable module/class attribute of kmip.* modules."""
    out = {}
    for modname, mod in list(sys.modules.items()):
        if mod is None or not (modname == 'kmip' or modname.startswith('kmip.')):
            continue
        if modname.startswith('kmip.tests'):
            continue
        try:
            names = list(vars(mod).items())
        except Exception:   # noqa
            continue
        for k, v in names:
            if k.startswith('__'):
                continue
            if isinstance(v, type) and getattr(v, '__module__', None) == modname:
                if issubclass(v, enum.Enum):
                    continue
                for ck, cv in list(vars(v).items()):
                    if ck.startswith('__') or ck.startswith('_sa_') or ck == '_abc_impl':
                        continue
                    if _candidate(cv):
                        out[(modname, '%s.%s' % (k, ck))] = _fp(cv, depth, frozenset())
            elif _candidate(v):
                out[(modname, k)] = _fp(v, depth, frozenset())
    for name, obj in (extra or {}).items():
        out[('<shared>', name)] = _fp(obj, depth, frozenset())
    return out


def diff(a, b):
    return sorted(k for k in set(a) | set(b) if a.get(k) != b.get(k))


def files_of(changed):
    """Source files (suffixes usable as Scheduler.trace_files) of the modules owning changed state."""
    out = set()
    for modname, path in changed:
        mod = sys.modules.get(modname)
        f = getattr(mod, '__file__', None)
        if f and '/kmip/' in f:
            out.add('kmip/' + f.split('/kmip/', 1)[1])
    return sorted(out)


class Watch(object):
    """Samples the snapshot while code runs (every `stride`-th return event of a function defined in
    the kmip package) and accumulates every root that ever differed from the baseline - so a scratch
    object that is filled and cleared again within one request is still seen."""

    def __init__(self, extra=None, stride=25):
        self.extra = extra
        self.stride = stride
        self.n = 0
        self.changed = set()
        self.base = None

    def _prof(self, frame, event, arg):
        if event != 'return':
            return
        if '/kmip/' not in frame.f_code.co_filename:
            # a call OUT of the package (socket recv/send, an HTTP lookup, the database): the place
            # where a real server blocks and other sessions run - always sampled
            back = frame.f_back
            if back is not None and '/kmip/' in back.f_code.co_filename:
                self.sample()
            return
        self.n += 1
        if self.n % self.stride == 0:
            self.sample()

    def sample(self):
        self.changed.update(diff(self.base, snapshot(self.extra)))

    def __enter__(self):
        self.base = snapshot(self.extra)
        sys.setprofile(self._prof)
        return self

    def __exit__(self, *a):
        sys.setprofile(None)
        self.sample()
