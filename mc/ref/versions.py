"""Version table written from the KMIP 1.0, 1.1, 1.2, 1.3, 1.4 and 2.0 specifications
(operations: section 4; attributes: section 3 / 4.x of 2.0; tags: section 9.1.3.1).
Not derived from PyKMIP's tables: a disagreement is a finding to triage, in either direction."""

V10, V11, V12, V13, V14, V20 = (1, 0), (1, 1), (1, 2), (1, 3), (1, 4), (2, 0)

# operation (PyKMIP enum member name) -> first protocol version that defines it
OPERATION_FIRST = {
    'CREATE': V10, 'CREATE_KEY_PAIR': V10, 'REGISTER': V10, 'REKEY': V10, 'DERIVE_KEY': V10,
    'CERTIFY': V10, 'RECERTIFY': V10, 'LOCATE': V10, 'CHECK': V10, 'GET': V10, 'GET_ATTRIBUTES': V10,
    'GET_ATTRIBUTE_LIST': V10, 'ADD_ATTRIBUTE': V10, 'MODIFY_ATTRIBUTE': V10, 'DELETE_ATTRIBUTE': V10,
    'OBTAIN_LEASE': V10, 'GET_USAGE_ALLOCATION': V10, 'ACTIVATE': V10, 'REVOKE': V10, 'DESTROY': V10,
    'ARCHIVE': V10, 'RECOVER': V10, 'VALIDATE': V10, 'QUERY': V10, 'CANCEL': V10, 'POLL': V10,
    'NOTIFY': V10, 'PUT': V10,
    'REKEY_KEY_PAIR': V11, 'DISCOVER_VERSIONS': V11,
    'ENCRYPT': V12, 'DECRYPT': V12, 'SIGN': V12, 'SIGNATURE_VERIFY': V12, 'MAC': V12, 'MAC_VERIFY': V12,
    'RNG_RETRIEVE': V12, 'RNG_SEED': V12, 'HASH': V12, 'CREATE_SPLIT_KEY': V12, 'JOIN_SPLIT_KEY': V12,
    'IMPORT': V14, 'EXPORT': V14,
    'LOG': V20, 'LOGIN': V20, 'LOGOUT': V20, 'DELEGATED_LOGIN': V20, 'ADJUST_ATTRIBUTE': V20,
    'SET_ATTRIBUTE': V20, 'SET_ENDPOINT_ROLE': V20, 'PKCS_11': V20, 'INTEROP': V20,
    'REPROVISION': V20,
}

# attribute -> (first version, first version in which it is no longer defined or None)
# Operation Policy Name: deprecated in 1.3, removed in 2.0 -> handled by attribute_status
ATTRIBUTES = {
    'Unique Identifier': (V10, None), 'Name': (V10, None), 'Object Type': (V10, None),
    'Cryptographic Algorithm': (V10, None), 'Cryptographic Length': (V10, None),
    'Cryptographic Parameters': (V10, None), 'Cryptographic Domain Parameters': (V10, None),
    'Certificate Type': (V10, None), 'Certificate Identifier': (V10, V20),
    'Certificate Subject': (V10, V20), 'Certificate Issuer': (V10, V20), 'Digest': (V10, None),
    'Operation Policy Name': (V10, V20), 'Cryptographic Usage Mask': (V10, None),
    'Lease Time': (V10, None), 'Usage Limits': (V10, None), 'State': (V10, None),
    'Initial Date': (V10, None), 'Activation Date': (V10, None), 'Process Start Date': (V10, None),
    'Protect Stop Date': (V10, None), 'Deactivation Date': (V10, None), 'Destroy Date': (V10, None),
    'Compromise Occurrence Date': (V10, None), 'Compromise Date': (V10, None),
    'Revocation Reason': (V10, None), 'Archive Date': (V10, None), 'Object Group': (V10, None),
    'Link': (V10, None), 'Application Specific Information': (V10, None),
    'Contact Information': (V10, None), 'Last Change Date': (V10, None),
    'Custom Attribute': (V10, None),
    'Certificate Length': (V11, None), 'X.509 Certificate Identifier': (V11, None),
    'X.509 Certificate Subject': (V11, None), 'X.509 Certificate Issuer': (V11, None),
    'Digital Signature Algorithm': (V11, None), 'Fresh': (V11, None),
    'Alternative Name': (V12, None), 'Key Value Present': (V12, None), 'Key Value Location': (V12, None),
    'Original Creation Date': (V12, None),
    'Random Number Generator': (V13, None),
    'PKCS#12 Friendly Name': (V14, None), 'Description': (V14, None), 'Comment': (V14, None),
    'Sensitive': (V14, None), 'Always Sensitive': (V14, None), 'Extractable': (V14, None),
    'Never Extractable': (V14, None),
}
# deprecated-but-still-defined windows: reporting is optional there
DEPRECATED_WINDOW = {'Operation Policy Name': (V13, V20),
                     'Certificate Identifier': (V11, V20), 'Certificate Subject': (V11, V20),
                     'Certificate Issuer': (V11, V20)}


def attribute_status(name, version):
    """'defined' | 'deprecated' (may or may not be reported) | 'undefined' | 'unknown'"""
    if name.startswith('x-') or name.startswith('y-'):
        return 'defined'
    if name not in ATTRIBUTES:
        return 'unknown'
    first, gone = ATTRIBUTES[name]
    if version < first or (gone is not None and version >= gone):
        return 'undefined'
    w = DEPRECATED_WINDOW.get(name)
    if w and w[0] <= version < w[1]:
        return 'deprecated'
    return 'defined'


# values to SUPPLY for version-sensitive attributes (python values for PyKMIP's attribute factory)
SAMPLE_VALUES = {'Sensitive': True, 'Always Sensitive': True, 'Extractable': True,
                 'Never Extractable': True, 'Fresh': True, 'Operation Policy Name': 'default',
                 'Original Creation Date': 1700000000}

# attributes the server assigns/keeps for the objects of the C16 base store (uid -> names) and must
# therefore report whenever the version defines them
MUST_REPORT = {
    '1': ['Unique Identifier', 'Object Type', 'Cryptographic Algorithm', 'Cryptographic Length',
          'Cryptographic Usage Mask', 'State', 'Initial Date', 'Name', 'Object Group',
          'Application Specific Information', 'Sensitive'],
    '2': ['Unique Identifier', 'Object Type', 'Cryptographic Algorithm', 'State', 'Sensitive'],
    '4': ['Unique Identifier', 'Object Type', 'Certificate Type', 'State', 'Name'],
    '5': ['Unique Identifier', 'Object Type', 'State', 'Initial Date'],
}

# message tags that may only appear from / until a version (9.1.3.1 tag tables)
TAG_FIRST = {
    0x420125: V20,   # Attributes
    0x420126: V20,   # Common Attributes
    0x420127: V20,   # Private Key Attributes
    0x420128: V20,   # Public Key Attributes
    0x42013B: V20,   # Attribute Reference
    0x42013C: V20,   # Current Attribute
    0x42013D: V20,   # New Attribute
    0x420154: V20,   # Ephemeral
    0x420155: V20,   # Server Hashed Password
    0x42015F: V20,   # Protection Storage Masks
    0x420120: V14,   # Sensitive
    0x420121: V14,   # Always Sensitive
    0x420122: V14,   # Extractable
    0x420123: V14,   # Never Extractable
    0x420105: V14,   # Client Correlation Value
    0x420106: V14,   # Server Correlation Value
    0x4200F7: V13,   # Capability Information
    0x4200D9: V13,   # RNG Parameters
    0x4200EB: V13,   # Profile Information
    0x4200DF: V13,   # Validation Information
    0x4200F3: V13,   # Client Registration Method
    0x4200C7: V12,   # Attestation Type
    0x4200A4: V11,   # Extension Information
}
TAG_LAST = {
    0x420091: V14,   # Template-Attribute
    0x42001F: V14,   # Common Template-Attribute
    0x420065: V14,   # Private Key Template-Attribute
    0x42006E: V14,   # Public Key Template-Attribute
    0x42005D: V14,   # Operation Policy Name
}
TAG_TO_ATTRIBUTE = {
    0x420094: 'Unique Identifier', 0x420053: 'Name', 0x420057: 'Object Type',
    0x420028: 'Cryptographic Algorithm', 0x42002A: 'Cryptographic Length',
    0x42002B: 'Cryptographic Parameters', 0x42001D: 'Certificate Type', 0x42005D: 'Operation Policy Name',
    0x42002C: 'Cryptographic Usage Mask', 0x42008D: 'State', 0x420039: 'Initial Date',
    0x420056: 'Object Group', 0x420004: 'Application Specific Information', 0x420120: 'Sensitive',
    0x420049: 'Lease Time', 0x420022: 'Contact Information', 0x42003E: 'Fresh',
}
_NAMES = {
    0x420125: 'Attributes', 0x420155: 'Server Hashed Password', 0x420120: 'Sensitive',
    0x420091: 'Template-Attribute', 0x42005D: 'Operation Policy Name',
    0x4200A3: 'Encoding Option', 0x4200AC: 'Object Group Member', 0x4200D4: 'Offset Items',
    0x4200D5: 'Located Items', 0x4200FF: 'Authenticated Encryption Tag',
    0x4200FE: 'Authenticated Encryption Additional Data', 0x4200C5: 'Random IV',
    0x4200CD: 'IV Length', 0x4200CE: 'Tag Length', 0x4200C2: 'Data', 0x4200C6: 'MAC Data',
    0x4200C3: 'Signature Data', 0x4200AE: 'Digital Signature Algorithm', 0x4200F8: 'Key Wrap Type',
}


# The standard tag space 0x420001.. was allocated in specification order, so a tag's number tells the
# version whose tag table (9.1.3.1) first lists it: 1.0 up to 0x4200A1 (Password), 1.1 up to 0x4200B7
# (X.509 Certificate Subject), 1.2 up to 0x4200D3 (Attestation Capable Indicator), 1.3 up to 0x4200F7
# (Capability Information), 1.4 up to 0x420124 (Replace Existing), 2.0 from 0x420125 (Attributes).
TAG_RANGES = [(0x420125, V20), (0x4200F8, V14), (0x4200D4, V13), (0x4200B8, V12), (0x4200A2, V11)]


def tag_first(t):
    """First KMIP version that defines standard tag t (None for extension tags 0x54xxxx)."""
    if not (0x420000 <= t <= 0x42FFFF):
        return None
    for lo, v in TAG_RANGES:
        if t >= lo:
            return v
    return V10


def tagname(t):
    return _NAMES.get(t, TAG_TO_ATTRIBUTE.get(t, '%06x' % t))
