"""Reference matcher for Locate, from the property statement: an object matches a filter iff it
HAS that attribute and the value agrees (usage mask: all requested bits set; initial date: exact
with one value, inclusive range with two)."""


class TooManyDates(Exception):
    pass


def matches(o, filters):
    """filters: list of (name, value). Returns True/False; raises TooManyDates."""
    dates = [v for n, v in filters if n == 'Initial Date']
    if len(dates) > 2:
        raise TooManyDates()
    for name, value in filters:
        if name == 'Name':
            if value not in o.get('names', []):
                return False
        elif name == 'State':
            if 'state' not in o or o['state'] != value:
                return False
        elif name == 'Object Type':
            if o['object_type'] != value:
                return False
        elif name == 'Cryptographic Algorithm':
            if o.get('algorithm') is None or o['algorithm'] != value:
                return False
        elif name == 'Cryptographic Length':
            if o.get('length') is None or o['length'] != value:
                return False
        elif name == 'Cryptographic Usage Mask':
            if 'mask' not in o or (o['mask'] & value) != value:
                return False
        elif name == 'Operation Policy Name':
            if o.get('policy') != value:
                return False
        elif name == 'Object Group':
            if value not in o.get('groups', []):
                return False
        elif name == 'Application Specific Information':
            if tuple(value) not in [tuple(x) for x in o.get('appinfo', [])]:
                return False
        elif name == 'Certificate Type':
            if o.get('certificate_type') is None or o['certificate_type'] != value:
                return False
        elif name == 'Unique Identifier':
            if o['uid'] != value:
                return False
        elif name == 'Sensitive':
            if o.get('sensitive') is None or o['sensitive'] != value:
                return False
        elif name == 'Initial Date':
            pass
        else:
            raise ValueError(name)
    if len(dates) == 1:
        if o['initial_date'] != dates[0]:
            return False
    elif len(dates) == 2:
        lo, hi = min(dates), max(dates)
        if not (lo <= o['initial_date'] <= hi):
            return False
    return True
