"""Independent view of the store: objects and their attributes read from the raw SQLite dump
(mc.world.dump_db), without the ORM. Enumeration values are plain ints (KMIP wire values)."""

SYMMETRIC_KEY, PUBLIC_KEY, PRIVATE_KEY, SPLIT_KEY, SECRET_DATA, CERTIFICATE, OPAQUE = 2, 3, 4, 5, 7, 1, 8


def _rows(dump, table):
    cols, rows = dump.get(table, ((), ()))
    return [dict(zip(cols, r)) for r in rows]


def objects(dump):
    """uid(str) -> dict of attributes. Missing attribute = key absent."""
    out = {}
    for r in _rows(dump, 'managed_objects'):
        out[str(r['uid'])] = {
            'uid': str(r['uid']), 'object_type': r['object_type'], 'class': r['class_type'],
            'value': r['value'], 'policy': r['operation_policy_name'],
            'sensitive': bool(r['sensitive']) if r['sensitive'] is not None else None,
            'initial_date': r['initial_date'], 'owner': r['owner'],
            'names': [], 'groups': [], 'appinfo': [],
        }
    for r in _rows(dump, 'crypto_objects'):
        o = out.get(str(r['uid']))
        if o is not None:
            o['mask'] = r['cryptographic_usage_mask'] or 0
            o['state'] = r['state']
    for r in _rows(dump, 'keys'):
        o = out.get(str(r['uid']))
        if o is not None:
            o['algorithm'] = None if r['cryptographic_algorithm'] == -1 else r['cryptographic_algorithm']
            o['length'] = r['cryptographic_length']
            o['key_format_type'] = r['key_format_type']
            o['key_row'] = r
    for r in _rows(dump, 'certificates'):
        o = out.get(str(r['uid']))
        if o is not None:
            o['certificate_type'] = r['certificate_type']
    for r in _rows(dump, 'secret_data_objects'):
        o = out.get(str(r['uid']))
        if o is not None:
            o['secret_data_type'] = r['data_type']
    for r in _rows(dump, 'opaque_objects'):
        o = out.get(str(r['uid']))
        if o is not None:
            o['opaque_type'] = r['opaque_type']
    for r in _rows(dump, 'split_keys'):
        o = out.get(str(r['uid']))
        if o is not None:
            o['split'] = r
    names = {}
    for r in _rows(dump, 'managed_object_names'):
        names.setdefault(str(r['mo_uid']), []).append((r['name_index'], r['id'], r['name'], r['name_type']))
    for u, l in names.items():
        if u in out:
            out[u]['names'] = [n[2] for n in sorted(l)]
            out[u]['name_types'] = [n[3] for n in sorted(l)]
    groups = {r['id']: r['object_group'] for r in _rows(dump, 'object_groups')}
    for r in sorted(_rows(dump, 'object_group_map'), key=lambda r: r['object_group_id']):
        o = out.get(str(r['managed_object_id']))
        if o is not None:
            o['groups'].append(groups.get(r['object_group_id']))
    infos = {r['id']: (r['application_namespace'], r['application_data'])
             for r in _rows(dump, 'app_specific_info')}
    for r in sorted(_rows(dump, 'app_specific_info_map'), key=lambda r: r['app_specific_info_id']):
        o = out.get(str(r['managed_object_id']))
        if o is not None:
            o['appinfo'].append(infos.get(r['app_specific_info_id']))
    return out
