"""Reference access decision, written from the property statement and docs/source/server.rst.

policies: {name: {'preset': {ObjectType: {Operation: Policy}}, 'groups': {group: {...}}}}
Returns a set of acceptable answers ({True}, {False} or {True, False} where the statement leaves
room: an EMPTY group list under a policy without group sections).
"""


def _cell(section, otype, op, user, owner, P):
    if not section:
        return False
    row = section.get(otype)
    if not row:
        return False
    perm = row.get(op)
    if perm == P.ALLOW_ALL:
        return True
    if perm == P.ALLOW_OWNER:
        return user == owner
    return False


def allowed(policies, policy_name, user, groups, owner, otype, op, P):
    pol = (policies or {}).get(policy_name)
    if not pol:
        return {False}
    preset = _cell(pol.get('preset'), otype, op, user, owner, P)
    if groups is None:
        return {preset}
    if not pol.get('groups'):
        # the policy defines no groups: the preset section decides
        if len(groups) == 0:
            return {preset, False}      # "group information" that names no group: either reading
        return {preset}
    return {any(_cell(pol['groups'].get(g), otype, op, user, owner, P) for g in groups)}
