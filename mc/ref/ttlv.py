"""Independent TTLV parser/encoder written from the KMIP specification (section 9.1).

Does not import anything from kmip.*.  A node is a tuple
    (tag:int, type:int, value)
where value is a list of nodes for a Structure (type 1) and a Python value otherwise:
    2 Integer -> int, 3 LongInteger -> int, 4 BigInteger -> int, 5 Enumeration -> int,
    6 Boolean -> bool, 7 TextString -> str, 8 ByteString -> bytes, 9 DateTime -> int,
    10 Interval -> int, 11 DateTimeExtended -> int (KMIP 2.0)
"""

STRUCTURE, INTEGER, LONG_INTEGER, BIG_INTEGER, ENUMERATION, BOOLEAN, TEXT_STRING, \
    BYTE_STRING, DATE_TIME, INTERVAL, DATE_TIME_EXTENDED = range(1, 12)

FIXED = {INTEGER: 4, LONG_INTEGER: 8, ENUMERATION: 4, BOOLEAN: 8, DATE_TIME: 8,
         INTERVAL: 4, DATE_TIME_EXTENDED: 8}

TYPE_NAMES = {1: 'Structure', 2: 'Integer', 3: 'LongInteger', 4: 'BigInteger',
              5: 'Enumeration', 6: 'Boolean', 7: 'TextString', 8: 'ByteString',
              9: 'DateTime', 10: 'Interval', 11: 'DateTimeExtended'}


class TTLVError(Exception):
    pass


def _pad(n):
    return (8 - n % 8) % 8


def parse_one(buf, pos=0, end=None, depth=0, strict=True):
    """Parse one item starting at pos; return (node, new_pos)."""
    if end is None:
        end = len(buf)
    if depth > 64:
        raise TTLVError("nesting deeper than 64")
    if end - pos < 8:
        raise TTLVError("truncated item header at %d" % pos)
    tag = int.from_bytes(buf[pos:pos + 3], 'big')
    typ = buf[pos + 3]
    length = int.from_bytes(buf[pos + 4:pos + 8], 'big')
    pos += 8
    if typ not in TYPE_NAMES:
        raise TTLVError("unknown type code %#x at %d" % (typ, pos - 5))
    if strict and (tag >> 16) not in (0x42, 0x54):
        raise TTLVError("tag %#08x outside 42xxxx/54xxxx" % tag)
    if typ in FIXED and length != FIXED[typ]:
        raise TTLVError("type %s with length %d" % (TYPE_NAMES[typ], length))
    padded = length + _pad(length)
    if pos + padded > end:
        raise TTLVError("value of %d(+pad) bytes overruns container at %d" % (length, pos))
    raw = bytes(buf[pos:pos + length])
    padding = bytes(buf[pos + length:pos + padded])
    if strict and any(padding):
        raise TTLVError("non-zero padding at %d" % (pos + length))
    if typ == STRUCTURE:
        if length % 8:
            raise TTLVError("structure length %d not a multiple of 8" % length)
        children = []
        p = pos
        while p < pos + length:
            child, p = parse_one(buf, p, pos + length, depth + 1, strict)
            children.append(child)
        value = children
    elif typ in (INTEGER, LONG_INTEGER):
        value = int.from_bytes(raw, 'big', signed=True)
    elif typ == BIG_INTEGER:
        if length % 8 or length == 0:
            raise TTLVError("big integer length %d" % length)
        value = int.from_bytes(raw, 'big', signed=True)
    elif typ in (ENUMERATION, INTERVAL):
        value = int.from_bytes(raw, 'big', signed=False)
    elif typ == BOOLEAN:
        v = int.from_bytes(raw, 'big')
        if v not in (0, 1):
            raise TTLVError("boolean value %d" % v)
        value = bool(v)
    elif typ == TEXT_STRING:
        try:
            value = raw.decode('utf-8')
        except UnicodeDecodeError as e:
            if strict:
                raise TTLVError("text string is not UTF-8: %s" % e)
            value = raw.decode('latin-1')
    elif typ == BYTE_STRING:
        value = raw
    else:  # DATE_TIME, DATE_TIME_EXTENDED
        value = int.from_bytes(raw, 'big', signed=True)
    return (tag, typ, value), pos + padded


def parse(buf, strict=True):
    """Parse a buffer holding exactly one top-level item."""
    node, pos = parse_one(buf, 0, len(buf), 0, strict)
    if pos != len(buf):
        raise TTLVError("%d trailing bytes" % (len(buf) - pos))
    return node


def parse_all(buf, strict=True):
    out, pos = [], 0
    while pos < len(buf):
        node, pos = parse_one(buf, pos, len(buf), 0, strict)
        out.append(node)
    return out


def encode(node):
    tag, typ, value = node
    if typ == STRUCTURE:
        body = b''.join(encode(c) for c in value)
    elif typ == INTEGER:
        body = int(value).to_bytes(4, 'big', signed=True)
    elif typ in (LONG_INTEGER, DATE_TIME, DATE_TIME_EXTENDED):
        body = int(value).to_bytes(8, 'big', signed=True)
    elif typ == BIG_INTEGER:
        n = max(8, ((int(value).bit_length() + 8) // 8 + 7) // 8 * 8)
        body = int(value).to_bytes(n, 'big', signed=True)
    elif typ in (ENUMERATION, INTERVAL):
        body = int(value).to_bytes(4, 'big', signed=False)
    elif typ == BOOLEAN:
        body = (1 if value else 0).to_bytes(8, 'big')
    elif typ == TEXT_STRING:
        body = value.encode('utf-8')
    elif typ == BYTE_STRING:
        body = bytes(value)
    else:
        raise TTLVError("cannot encode type %r" % typ)
    head = tag.to_bytes(3, 'big') + bytes([typ]) + len(body).to_bytes(4, 'big')
    return head + body + b'\x00' * _pad(len(body))


def find(node, tag):
    """First direct child with tag, or None."""
    if node[1] != STRUCTURE:
        return None
    for c in node[2]:
        if c[0] == tag:
            return c
    return None


def find_all(node, tag):
    return [c for c in node[2] if c[0] == tag] if node[1] == STRUCTURE else []


def walk(node, path=()):
    yield path, node
    if node[1] == STRUCTURE:
        for i, c in enumerate(node[2]):
            yield from walk(c, path + (i,))


def render(node):
    """JSON-able canonical form."""
    tag, typ, value = node
    if typ == STRUCTURE:
        return ["%06x" % tag, [render(c) for c in value]]
    if typ == BYTE_STRING:
        return ["%06x" % tag, "b:" + value.hex()]
    return ["%06x" % tag, TYPE_NAMES[typ][0:3] + ":" + str(value)]


def index(buf):
    """Flat list of the items of a (well-formed) encoding with byte offsets:
    dict(path, start, value_start, value_end, end, tag, type, length)."""
    out = []

    def rec(pos, end, path):
        i = 0
        while pos < end:
            tag = int.from_bytes(buf[pos:pos + 3], 'big')
            typ = buf[pos + 3]
            length = int.from_bytes(buf[pos + 4:pos + 8], 'big')
            vs = pos + 8
            ve = vs + length
            pe = ve + _pad(length)
            out.append({'path': path + (i,), 'start': pos, 'value_start': vs, 'value_end': ve,
                        'end': pe, 'tag': tag, 'type': typ, 'length': length})
            if typ == STRUCTURE:
                rec(vs, ve, path + (i,))
            pos = pe
            i += 1
    rec(0, len(buf), ())
    return out


def get_path(tree, path):
    node = (None, STRUCTURE, [tree])
    for i in path:
        node = node[2][i]
    return node


def replace_path(tree, path, new_nodes):
    """Return a copy of tree with the node at path replaced by the list new_nodes (may be empty)."""
    def rec(node, p):
        if not p:
            raise ValueError
        tag, typ, kids = node
        i = p[0]
        if len(p) == 1:
            return (tag, typ, kids[:i] + list(new_nodes) + kids[i + 1:])
        return (tag, typ, kids[:i] + [rec(kids[i], p[1:])] + kids[i + 1:])
    top = rec((None, STRUCTURE, [tree]), path)
    return top[2]


def short_primitive(original, mutant):
    """original: a well-formed encoding; mutant: the same bytes except for ONE length field of a
    primitive (non-structure) item. Returns a description if the mutated length makes that item's
    value extend beyond the end of its enclosing structure (or of the buffer) - the value's bytes
    are not all there, so the item cannot be fully decoded by anyone - else None."""
    if len(original) != len(mutant):
        return None
    diff = [i for i in range(len(original)) if original[i] != mutant[i]]
    if not diff:
        return None
    items = index(original)
    ends = {n['path']: n['value_end'] for n in items}
    for n in items:
        s = n['start']
        if n['type'] == STRUCTURE or not all(s + 4 <= i < s + 8 for i in diff):
            continue
        newlen = int.from_bytes(mutant[s + 4:s + 8], 'big')
        container_end = ends.get(n['path'][:-1], len(original))
        if n['value_start'] + newlen > container_end:
            return "item %06x declares %d value bytes, %d remain in its container" % (
                n['tag'], newlen, container_end - n['value_start'])
    return None
