"""Shape registry: which values the library lets a caller construct, discovered from the library
itself (constructor signatures + setter validation), used to ENUMERATE values for C01/C02.

Per encodable class and constructor parameter a typed universal menu is offered; a candidate is
kept when the constructor accepts it (no TypeError/ValueError). Parameters without validation
(they accept a bare object()) get their domain from the class the reader instantiates for that
attribute (parsed from the read() source), never "anything".
"""
import enum
import importlib
import inspect
import pkgutil
import re

from kmip.core import enums, primitives, utils as cutils
import kmip.core.messages.payloads as _payloads_pkg

MODULES = ['kmip.core.primitives', 'kmip.core.objects', 'kmip.core.attributes', 'kmip.core.secrets',
           'kmip.core.misc', 'kmip.core.messages.contents', 'kmip.core.messages.messages'] + \
          ['kmip.core.messages.payloads.' + m.name for m in pkgutil.iter_modules(_payloads_pkg.__path__)]

ABSTRACT = {'Base', 'Struct', 'RequestPayload', 'ResponsePayload'}
PRIMITIVES = {'Integer', 'LongInteger', 'BigInteger', 'Enumeration', 'Boolean', 'TextString',
              'ByteString', 'DateTime', 'Interval'}
MESSAGE_LEVEL = {'RequestMessage', 'ResponseMessage', 'RequestBatchItem', 'ResponseBatchItem'}

KV = [enums.KMIPVersion.KMIP_1_0, enums.KMIPVersion.KMIP_1_1, enums.KMIPVersion.KMIP_1_2,
      enums.KMIPVersion.KMIP_1_3, enums.KMIPVersion.KMIP_1_4, enums.KMIPVersion.KMIP_2_0]


def all_classes():
    out = {}
    for mn in MODULES:
        m = importlib.import_module(mn)
        for n, c in inspect.getmembers(m, inspect.isclass):
            if c.__module__ != mn or not issubclass(c, primitives.Base):
                continue
            out[c.__qualname__ if mn != 'kmip.core.primitives' else c.__name__] = c
            for n2, c2 in inspect.getmembers(c, inspect.isclass):
                if issubclass(c2, primitives.Base) and c2.__qualname__.startswith(c.__qualname__ + '.'):
                    out[c2.__qualname__] = c2
    # disambiguate equal names across modules (request/response payloads are unique already)
    return out


# non-trivial values first: the first admissible candidate of a field is its "present" value
ATOMS = [True, 1, 'a', b'\x01' * 8, False, 0, -1, 255, 256, 2 ** 31 - 1, 2 ** 32, '', 'abcdefgh',
         'abcdefghi', 'é', b'', b'\x00', b'\x02' * 9]

ENUM_CLASSES = [c for n, c in inspect.getmembers(enums, inspect.isclass)
                if issubclass(c, enum.Enum) and c is not enum.Enum and len(list(c)) > 0
                and c.__name__ not in ('Tags', 'Types', 'KMIPVersion')]


def enum_candidates():
    out = []
    for c in ENUM_CLASSES:
        ms = list(c)
        out.append(ms[0])
        if len(ms) > 1:
            out.append(ms[-1])
        if len(ms) > 2:
            out.append(ms[1])
    return out


class Untyped(object):
    """sentinel offered to detect parameters without validation (duck-typed: any method exists)"""

    def __getattr__(self, name):
        if name.startswith('__'):
            raise AttributeError(name)
        return lambda *a, **k: None


def params_of(cls):
    try:
        sig = inspect.signature(cls.__init__)
    except (TypeError, ValueError):
        return []
    out = []
    for n, p in list(sig.parameters.items())[1:]:
        if p.kind in (p.VAR_POSITIONAL, p.VAR_KEYWORD):
            continue
        out.append((n, p.default))
    return out


_READ_ASSIGN = re.compile(r"self\.(_?\w+)\s*=\s*([A-Za-z_][\w\.]*)\(\s*(?:tag=(?:enums\.)?Tags\.(\w+))?")


def reader_classes(cls, classes_by_name):
    """attribute name -> class instantiated by read() for it (old-style classes)."""
    out = {}
    try:
        src = inspect.getsource(cls.read)
    except (OSError, TypeError):
        return out
    for attr, cname, tagname in _READ_ASSIGN.findall(src):
        short = cname.split('.')[-1]
        if short in PRIMITIVES and tagname:
            out.setdefault(attr.lstrip('_'), (getattr(primitives, short), getattr(enums.Tags, tagname)))
            continue
        c = classes_by_name.get(cname) or classes_by_name.get(short)
        if c is None:
            for qn, cc in classes_by_name.items():
                if qn.split('.')[-1] == short:
                    c = cc
                    break
        if c is not None:
            out.setdefault(attr.lstrip('_'), c)
    return out


def _too_big(obj, depth=0):
    """bytes(n) for an int n is n zero bytes: the menu's large ints would allocate gigabytes."""
    if isinstance(obj, (bytes, bytearray, str)):
        return len(obj) > 65536
    if depth > 3 or not hasattr(obj, '__dict__'):
        return False
    return any(_too_big(v, depth + 1) for v in vars(obj).values())


def _holds_len(obj, n, depth=0):
    if isinstance(obj, (bytes, bytearray)):
        return len(obj) == n
    if depth > 3 or not hasattr(obj, '__dict__'):
        return False
    return any(_holds_len(v, n, depth + 1) for v in vars(obj).values())


def try_construct(cls, kwargs):
    try:
        big = [v for v in kwargs.values() if isinstance(v, int) and not isinstance(v, bool)
               and abs(v) >= 65536]
        if big and cls.__name__ != 'object':
            import resource  # noqa: F401  (bound the damage of bytes(2**32) inside constructors)
        obj = cls(**kwargs)
        if _too_big(obj):
            return None, ValueError("menu value expands to a huge byte string")
        return obj, None
    except (TypeError, ValueError, AttributeError, KeyError, enum_error()) as e:
        return None, e
    except Exception as e:   # noqa
        return None, e


def enum_error():
    return LookupError


class Runaway(Exception):
    """An encoding grew past ENCODE_CAP: no menu value is that large, so state is leaking between
    values (e.g. a shared mutable default that every decode appends to)."""


ENCODE_CAP = 1 << 20


def cap_streams():
    """Every BytearrayStream (also the inner ones the writers build) refuses to grow past the cap,
    so that a check meets runaway growth as a prompt exception instead of a hang."""
    if getattr(cutils.BytearrayStream, '_verif_capped', False):
        return
    plain = cutils.BytearrayStream.write

    def write(self, b):
        if len(self.buffer) + len(b) > ENCODE_CAP:
            raise Runaway("an encoding exceeds %d bytes" % ENCODE_CAP)
        return plain(self, b)
    cutils.BytearrayStream.write = write
    cutils.BytearrayStream._verif_capped = True


def encode(obj, kv):
    s = cutils.BytearrayStream()
    obj.write(s, kmip_version=kv)
    return bytes(s.buffer)


class Registry(object):
    def __init__(self, hand=None):
        self.hand = hand            # callback injecting hand-written domains after the first round
        self.fixed = set()          # (class, param) keys whose domain discovery must not overwrite
        self.classes = {k: v for k, v in all_classes().items()
                        if k.split('.')[-1] not in ABSTRACT}
        self.params = {k: params_of(c) for k, c in self.classes.items()}
        self.domains = {}       # (class name, param) -> list of admissible candidate values
        self.untyped = set()
        self.instances = {}     # class name -> {'min': obj, 'full': obj}
        self.unconstructible = {}
        self._discover()

    # -- discovery -------------------------------------------------------------------------
    def _base_kwargs(self, name):
        """kwargs needed just to construct (parameters without default)."""
        kw = {}
        for p, d in self.params[name]:
            if d is inspect.Parameter.empty:
                kw[p] = None
        return kw

    def _discover(self):
        enum_c = enum_candidates()
        for rnd in range(4):
            if rnd == 1 and self.hand is not None:
                before = set(self.domains)
                snapshot = {k: list(v) for k, v in self.domains.items()}
                self.hand(self)
                self.fixed = set(k for k, v in self.domains.items()
                                 if k not in before or v != snapshot.get(k))
                for name, cls in self.classes.items():
                    if name.split('.')[-1] not in PRIMITIVES and name.split('.')[-1] not in MESSAGE_LEVEL:
                        self._build_instances(name, cls)
            inst_c = []
            for n, d in self.instances.items():
                for k in ('full', 'min'):      # the complete instance first: it is the "present" value
                    if d.get(k) is not None:
                        inst_c.append(d[k])
            for name, cls in self.classes.items():
                short = name.split('.')[-1]
                if short in PRIMITIVES or short in MESSAGE_LEVEL:
                    continue
                rcls = reader_classes(cls, self.classes)
                base = self._base_kwargs(name)
                for p, default in self.params[name]:
                    if p in ('tag', 'type') or (name, p) in self.fixed:
                        continue
                    obj, err = try_construct(cls, dict(base, **{p: Untyped()}))
                    dom = [None] if default is None else []
                    if isinstance(rcls.get(p), tuple):
                        # the reader builds a tagged primitive for this field: that is its domain
                        rc = rcls[p]
                        for v in (0, 1, 'a', b'\x01', True):
                            try:
                                cand = rc[0](v, tag=rc[1])
                            except Exception:   # noqa
                                continue
                            o, e = try_construct(cls, dict(base, **{p: cand}))
                            if o is not None:
                                dom.append(cand)
                        if len(dom) > (1 if default is None else 0):
                            self.domains[(name, p)] = self._dedupe(dom)
                            continue
                        dom = [None] if default is None else []
                    if obj is not None:
                        # no validation: take the reader's class for this attribute
                        self.untyped.add((name, p))
                        rc = rcls.get(p)
                        if isinstance(rc, tuple):
                            for v in (0, 1, 'a', b'\x01', True):
                                try:
                                    dom.append(rc[0](v, tag=rc[1]))
                                except Exception:   # noqa
                                    pass
                        elif rc is not None:
                            for qn, d in self.instances.items():
                                if self.classes.get(qn) is rc:
                                    dom += [d[k] for k in ('min', 'full') if d.get(k) is not None]
                            dom += self._primitive_like(rc)
                    else:
                        probe, _ = try_construct(cls, dict(base, **{p: 255}))
                        expands = probe is not None and _holds_len(probe, 255)
                        for cand in ATOMS + enum_c + inst_c:
                            if expands and isinstance(cand, int) and not isinstance(cand, bool) \
                                    and abs(cand) >= 65536:
                                continue     # bytes(n): n zero bytes - do not allocate gigabytes
                            o, e = try_construct(cls, dict(base, **{p: cand}))
                            if o is not None:
                                dom.append(cand)
                        # lists of accepted singletons
                        singles = [c for c in ATOMS + enum_c + inst_c]
                        for cand in singles:
                            o, e = try_construct(cls, dict(base, **{p: [cand]}))
                            if o is not None:
                                dom.append([cand])
                                o2, e2 = try_construct(cls, dict(base, **{p: [cand, cand]}))
                                if o2 is not None:
                                    dom.append([cand, cand])
                        o, e = try_construct(cls, dict(base, **{p: []}))
                        if o is not None:
                            dom.append([])
                    self.domains[(name, p)] = self._dedupe(dom)
                self._build_instances(name, cls)

    def _primitive_like(self, rc):
        """Instances for reader classes that are thin wrappers over primitives (contents.*)."""
        out = []
        for v in (0, 1, 'a', b'\x01', True):
            try:
                out.append(rc(v))
            except Exception:
                pass
        for c in ENUM_CLASSES:
            try:
                out.append(rc(list(c)[0]))
            except Exception:
                pass
            if len(out) > 6:
                break
        return out[:4]

    @staticmethod
    def _dedupe(dom):
        # an instance of a strict subclass (e.g. PrivateKeyUniqueIdentifier where a UniqueIdentifier
        # is meant) passes isinstance checks but carries another tag: a caller error, not a value
        # of this field - keep the most general accepted class only
        insts = [v for v in dom if hasattr(v, 'write')]
        dom = [v for v in dom if not (hasattr(v, 'write') and any(
            type(o) is not type(v) and isinstance(v, type(o)) for o in insts))]
        out, seen = [], set()
        for v in dom:
            k = (type(v).__name__, repr(v) if not hasattr(v, 'write') else id(v))
            if k not in seen:
                seen.add(k)
                out.append(v)
        return out

    def _build_instances(self, name, cls):
        if name in getattr(self, 'fixed_instances', {}):
            self.instances[name] = self.fixed_instances[name]
            return
        base = self._base_kwargs(name)
        mn, err = try_construct(cls, base)
        full_kw = dict(base)
        for p, default in self.params[name]:
            if p in ('tag', 'type'):
                continue
            dom = [v for v in self.domains.get((name, p), []) if v is not None]
            if dom:
                full_kw[p] = dom[0]
        fl, err2 = try_construct(cls, full_kw)
        self.instances[name] = {'min': mn, 'full': fl, 'full_kwargs': full_kw}
        if mn is None and fl is None:
            self.unconstructible[name] = repr(err or err2)[:200]

    # -- enumeration -------------------------------------------------------------------------
    def values(self, name, lattice_cap=10, sweep=True):
        """Yield (label, kwargs) for a class: presence lattice + value sweeps."""
        ps = [p for p, d in self.params[name] if p not in ('tag', 'type')]
        base = self._base_kwargs(name)
        firsts = {}
        for p in ps:
            dom = [v for v in self.domains.get((name, p), []) if v is not None]
            if dom:
                enc = [v for v in dom if _encodable(v)]
                firsts[p] = (enc or dom)[0]
        opt = [p for p in ps if p in firsts]
        import itertools
        if len(opt) <= lattice_cap:
            subsets = itertools.chain.from_iterable(
                itertools.combinations(opt, r) for r in range(len(opt) + 1))
        else:
            subsets = itertools.chain.from_iterable(
                itertools.combinations(opt, r) for r in (0, 1, 2, len(opt) - 1, len(opt)))
        for sub in subsets:
            kw = dict(base)
            for p in sub:
                kw[p] = firsts[p]
            yield ('lattice', sub), kw
        if not sweep:
            return
        full = dict(base, **firsts)
        for p in ps:
            for i, v in enumerate(self.domains.get((name, p), [])):
                if v is None or not _encodable(v):
                    continue        # a nested structure no version can encode is not a value
                yield ('sweep-min', p, i), dict(base, **{p: v})
                yield ('sweep-full', p, i), dict(full, **{p: v})


def _encodable(v):
    """Can this candidate itself be written under at least one version? (non-structures: yes)"""
    items = v if isinstance(v, list) else [v]
    for x in items:
        if not hasattr(x, 'write'):
            continue
        ok = False
        for kv in KV:
            try:
                encode(x, kv)
                ok = True
                break
            except Exception:   # noqa
                continue
        if not ok:
            return False
    return True


def describe(v):
    if hasattr(v, 'write'):
        return '<%s>' % type(v).__name__
    if isinstance(v, list):
        return '[%s]' % ','.join(describe(x) for x in v)
    if isinstance(v, enum.Enum):
        return '%s.%s' % (type(v).__name__, v.name)
    return repr(v)
