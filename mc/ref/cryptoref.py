"""Independent reference implementations for C06. MACs, KDFs and key wrap are written out by hand
on top of the standard library and ONE primitive: a single-block ECB encryption. Block-mode
ciphers are a separately written direct use of the `cryptography` package (padding by hand)."""
import hashlib
import hmac as _hmac
import struct

from cryptography.hazmat.primitives.ciphers import Cipher, algorithms, modes
from cryptography.hazmat.primitives.ciphers.aead import AESGCM

HASHES = {'MD5': 'md5', 'SHA_1': 'sha1', 'SHA_224': 'sha224', 'SHA_256': 'sha256', 'SHA_384': 'sha384',
          'SHA_512': 'sha512'}
CIPHERS = {'AES': algorithms.AES, 'TRIPLE_DES': algorithms.TripleDES, 'BLOWFISH': algorithms.Blowfish,
           'CAMELLIA': algorithms.Camellia, 'CAST5': algorithms.CAST5, 'IDEA': algorithms.IDEA}
BLOCK = {'AES': 16, 'CAMELLIA': 16, 'TRIPLE_DES': 8, 'BLOWFISH': 8, 'CAST5': 8, 'IDEA': 8}


def ecb_block(alg, key, block):
    e = Cipher(CIPHERS[alg](key), modes.ECB()).encryptor()
    return e.update(block) + e.finalize()


def ecb_block_dec(alg, key, block):
    d = Cipher(CIPHERS[alg](key), modes.ECB()).decryptor()
    return d.update(block) + d.finalize()


def hmac(hashname, key, data):
    return _hmac.new(key, data, HASHES[hashname]).digest()


def digest(hashname, data):
    return hashlib.new(HASHES[hashname], data).digest()


def _xor(a, b):
    return bytes(x ^ y for x, y in zip(a, b))


def cmac(alg, key, data):
    """RFC 4493 / NIST SP 800-38B for 64- and 128-bit block ciphers."""
    bs = BLOCK[alg]
    rb = 0x87 if bs == 16 else 0x1B

    def dbl(b):
        n = int.from_bytes(b, 'big') << 1
        if n >> (bs * 8):
            n = (n & ((1 << bs * 8) - 1)) ^ rb
        return n.to_bytes(bs, 'big')
    L = ecb_block(alg, key, b'\x00' * bs)
    k1 = dbl(L)
    k2 = dbl(k1)
    n = max(1, -(-len(data) // bs))
    complete = len(data) > 0 and len(data) % bs == 0
    blocks = [data[i * bs:(i + 1) * bs] for i in range(n)]
    if complete:
        last = _xor(blocks[-1], k1)
    else:
        last = _xor(blocks[-1] + b'\x80' + b'\x00' * (bs - len(blocks[-1]) - 1), k2)
    x = b'\x00' * bs
    for b in blocks[:-1]:
        x = ecb_block(alg, key, _xor(x, b))
    return ecb_block(alg, key, _xor(x, last))


def pbkdf2(hashname, password, salt, iterations, length):
    return hashlib.pbkdf2_hmac(HASHES[hashname], password, salt, iterations, length)


def hkdf(hashname, ikm, salt, info, length):
    """RFC 5869."""
    hl = hashlib.new(HASHES[hashname]).digest_size
    prk = hmac(hashname, salt if salt else b'\x00' * hl, ikm)
    okm, t, i = b'', b'', 1
    while len(okm) < length:
        t = hmac(hashname, prk, t + (info or b'') + bytes([i]))
        okm += t
        i += 1
    return okm[:length]


def kbkdf_counter(hashname, key, fixed, length):
    """NIST SP 800-108 KDF in counter mode, HMAC PRF, 32-bit counter before the fixed input data."""
    out, i = b'', 1
    while len(out) < length:
        out += hmac(hashname, key, struct.pack('>I', i) + (fixed or b''))
        i += 1
    return out[:length]


def aes_key_wrap(kek, plaintext):
    """RFC 3394."""
    n = len(plaintext) // 8
    a = b'\xa6' * 8
    r = [plaintext[i * 8:(i + 1) * 8] for i in range(n)]
    for j in range(6):
        for i in range(n):
            b = ecb_block('AES', kek, a + r[i])
            t = n * j + i + 1
            a = _xor(b[:8], t.to_bytes(8, 'big'))
            r[i] = b[8:]
    return a + b''.join(r)


def pad(method, data, bs):
    n = bs - len(data) % bs
    if method == 'PKCS5':
        return data + bytes([n]) * n
    if method == 'ANSI_X923':
        return data + b'\x00' * (n - 1) + bytes([n])
    raise ValueError(method)


def encrypt(alg, key, mode, data, iv=None, padding=None, aad=None, tag_len=16):
    """Returns (ciphertext, tag or None)."""
    if alg == 'RC4':
        e = Cipher(algorithms.ARC4(key), None).encryptor()
        return e.update(data) + e.finalize(), None
    bs = BLOCK[alg]
    if mode in ('CBC', 'ECB'):
        data = pad(padding, data, bs)
    if mode == 'GCM':
        out = AESGCM(key).encrypt(iv, data, aad)
        return out[:-16], out[-16:][:tag_len]
    if mode == 'ECB':
        return b''.join(ecb_block(alg, key, data[i:i + bs]) for i in range(0, len(data), bs)), None
    if mode == 'CBC':
        out, prev = b'', iv
        for i in range(0, len(data), bs):
            prev = ecb_block(alg, key, _xor(prev, data[i:i + bs]))
            out += prev
        return out, None
    if mode == 'CTR':
        out, ctr = b'', int.from_bytes(iv, 'big')
        for i in range(0, len(data), bs):
            ks = ecb_block(alg, key, (ctr % (1 << bs * 8)).to_bytes(bs, 'big'))
            out += _xor(data[i:i + bs], ks)
            ctr += 1
        return out, None
    if mode == 'OFB':
        out, ks = b'', iv
        for i in range(0, len(data), bs):
            ks = ecb_block(alg, key, ks)
            out += _xor(data[i:i + bs], ks)
        return out, None
    if mode == 'CFB':
        out, prev = b'', iv
        for i in range(0, len(data), bs):
            ks = ecb_block(alg, key, prev)
            c = _xor(data[i:i + bs], ks)
            out += c
            prev = c if len(c) == bs else prev
        return out, None
    raise ValueError(mode)
