"""The closed world: a real KmipEngine (+ real KmipSession) on a scratch SQLite file, with every
source of nondeterminism owned by the harness.

Nothing in /repo is edited: module globals are patched from here.
"""
import io
import json
import logging
import os
import shutil
import sqlite3
import struct
import sys
import tempfile
import time as _real_time
import datetime

_repo = os.environ.get('VERIF_REPO')
if _repo and _repo not in sys.path:
    sys.path.insert(0, _repo)

from kmip.core import enums, exceptions, objects as cobjects, attributes as cattrs  # noqa: E402
from kmip.core import primitives, utils as cutils, secrets as csecrets  # noqa: E402
from kmip.core.factories import attributes as attr_factory_mod  # noqa: E402
from kmip.core.messages import contents, messages, payloads  # noqa: E402
from kmip.core import policy as core_policy  # noqa: E402
from kmip.core import misc  # noqa: E402
from kmip.pie import objects as pobjects, factory as pfactory  # noqa: E402
from kmip.services.server import engine as engine_mod  # noqa: E402
from kmip.services.server import session as session_mod  # noqa: E402
from kmip.services.server.crypto import engine as crypto_mod  # noqa: E402

from mc.ref import ttlv  # noqa: E402

import kmip  # noqa: E402
KMIP_FILE_ROOT = os.path.dirname(os.path.abspath(kmip.__file__))

SCRATCH_BASE = '/dev/shm' if os.path.isdir('/dev/shm') and os.access('/dev/shm', os.W_OK) \
    else tempfile.gettempdir()

VERSIONS = [(1, 0), (1, 1), (1, 2), (1, 3), (1, 4), (2, 0)]
KV = {
    (1, 0): enums.KMIPVersion.KMIP_1_0, (1, 1): enums.KMIPVersion.KMIP_1_1,
    (1, 2): enums.KMIPVersion.KMIP_1_2, (1, 3): enums.KMIPVersion.KMIP_1_3,
    (1, 4): enums.KMIPVersion.KMIP_1_4, (2, 0): enums.KMIPVersion.KMIP_2_0,
}

T0 = 1_700_000_000  # logical epoch


# --------------------------------------------------------------------------------------------
# owned environment
# --------------------------------------------------------------------------------------------
class LogicalClock(object):
    """Stands in for the `time` module inside engine.py / session.py / primitives.py."""

    def __init__(self, start=T0):
        self.now = start

    def time(self):
        return float(self.now)

    def advance(self, d=1):
        self.now += d

    def __getattr__(self, name):  # strftime, gmtime, asctime, sleep, ...
        return getattr(_real_time, name)


class Entropy(object):
    """Counter stream standing in for os.urandom inside the crypto engine."""

    def __init__(self):
        self.counter = 0
        self.calls = []
        self.constant = False    # True: the answer depends on the requested length only

    def urandom(self, n):
        if self.constant:
            self.calls.append(n)
            return bytes((i * 7 + n) % 256 for i in range(n))
        out = bytearray()
        while len(out) < n:
            self.counter += 1
            out += self.counter.to_bytes(4, 'big')
        self.calls.append(n)
        return bytes(out[:n])


class _OsProxy(object):
    def __init__(self, entropy):
        self._entropy = entropy

    def urandom(self, n):
        return self._entropy.urandom(n)

    def __getattr__(self, name):
        return getattr(os, name)


CLOCK = LogicalClock()
ENTROPY = Entropy()


def own_environment():
    engine_mod.time = CLOCK
    session_mod.time = CLOCK
    primitives.time = CLOCK
    crypto_mod.os = _OsProxy(ENTROPY)


own_environment()


class LogCapture(logging.Handler):
    def __init__(self, level=logging.DEBUG):
        super(LogCapture, self).__init__(level)
        self.records = []

    def emit(self, record):
        self.records.append(record)

    def clear(self):
        del self.records[:]

    def texts(self, min_level=logging.INFO):
        out = []
        for r in self.records:
            if r.levelno < min_level:
                continue
            try:
                msg = r.getMessage()
            except Exception:
                msg = repr(r.msg) + repr(r.args)
            if r.exc_info:
                import traceback
                msg += '\n' + ''.join(traceback.format_exception(*r.exc_info))
            out.append((r.name, r.levelno, msg))
        return out


LOGS = LogCapture()
_root = logging.getLogger()
_root.addHandler(LOGS)
_root.setLevel(logging.INFO)  # the default level of the server's logging config
logging.getLogger('kmip').setLevel(logging.INFO)
logging.raiseExceptions = False


# --------------------------------------------------------------------------------------------
# certificates (session seam)
# --------------------------------------------------------------------------------------------
_CERTS = {}
_CERT_KEY = None


def make_cert(common_names=('alice',), eku='client'):
    """DER certificate. eku in {'client', 'server', None} or a tuple of key purposes: 'client',
    'server', 'any' or a dotted OID string; a leading '!' on the first entry marks the extension
    critical. common_names a tuple of CNs."""
    global _CERT_KEY
    k = (tuple(common_names), eku)
    if k in _CERTS:
        return _CERTS[k]
    from cryptography import x509
    from cryptography.hazmat.primitives import hashes, serialization
    from cryptography.hazmat.primitives.asymmetric import ec
    from cryptography.x509.oid import NameOID, ExtendedKeyUsageOID
    if _CERT_KEY is None:
        _CERT_KEY = ec.generate_private_key(ec.SECP256R1())
    attrs = [x509.NameAttribute(NameOID.ORGANIZATION_NAME, u'verif')]
    attrs += [x509.NameAttribute(NameOID.COMMON_NAME, cn) for cn in common_names]
    name = x509.Name(attrs)
    b = x509.CertificateBuilder().subject_name(name).issuer_name(name).public_key(
        _CERT_KEY.public_key()).serial_number(1000 + len(_CERTS)).not_valid_before(
        datetime.datetime(2020, 1, 1)).not_valid_after(datetime.datetime(2040, 1, 1))
    if isinstance(eku, tuple):
        critical = eku[0].startswith('!')
        names = [e.lstrip('!') for e in eku]
        known = {'client': ExtendedKeyUsageOID.CLIENT_AUTH, 'server': ExtendedKeyUsageOID.SERVER_AUTH,
                 'any': x509.ObjectIdentifier('2.5.29.37.0')}
        b = b.add_extension(x509.ExtendedKeyUsage(
            [known.get(n) or x509.ObjectIdentifier(n) for n in names]), critical)
    elif eku == 'client':
        b = b.add_extension(x509.ExtendedKeyUsage([ExtendedKeyUsageOID.CLIENT_AUTH]), False)
    elif eku == 'server':
        b = b.add_extension(x509.ExtendedKeyUsage([ExtendedKeyUsageOID.SERVER_AUTH]), False)
    cert = b.sign(_CERT_KEY, hashes.SHA256())
    der = cert.public_bytes(serialization.Encoding.DER)
    _CERTS[k] = der
    return der


RECV_HOOK = None


class FakeConnection(object):
    """What a KmipSession needs from an ssl socket, fed from a byte buffer."""

    def __init__(self, der_cert, data=b'', chunker=None):
        self.der = der_cert
        self.inbuf = bytearray(data)
        self.sent = []
        self.chunker = chunker  # callable(requested, available, call_index) -> n
        self.recv_calls = 0
        self.calls = []

    def feed(self, data):
        self.inbuf += data

    def getpeercert(self, binary_form=False):
        return self.der

    def shared_ciphers(self):
        return None

    def cipher(self):
        return ('TLS_FAKE', 'TLSv1.3', 256)

    def do_handshake(self):
        self.calls.append('handshake')

    def shutdown(self, how):
        self.calls.append('shutdown')

    def close(self):
        self.calls.append('close')

    def recv(self, n):
        if RECV_HOOK is not None:
            RECV_HOOK(self)         # an I/O point the schedule explorer can own
        self.recv_calls += 1
        if not self.inbuf:
            return b''
        k = min(n, len(self.inbuf))
        if self.chunker is not None:
            k = max(1, min(k, self.chunker(n, len(self.inbuf), self.recv_calls - 1)))
        out = bytes(self.inbuf[:k])
        del self.inbuf[:k]
        return out

    def sendall(self, data):
        self.sent.append(bytes(data))


# --------------------------------------------------------------------------------------------
# responses as independent trees
# --------------------------------------------------------------------------------------------
TAG = enums.Tags


class Item(object):
    __slots__ = ('operation', 'batch_id', 'status', 'reason', 'message', 'payload', 'node')

    def ok(self):
        return self.status == 0

    def key(self):
        return (self.operation, self.batch_id, self.status, self.reason, self.message,
                json.dumps(ttlv.render(self.payload)) if self.payload else None)

    def brief(self):
        if self.status == 0:
            return 'OK'
        try:
            r = enums.ResultReason(self.reason).name
        except Exception:
            r = str(self.reason)
        return 'FAIL(%s: %s)' % (r, self.message)


class Resp(object):
    """A decoded response: built from bytes by the independent parser only."""

    def __init__(self, data):
        self.data = bytes(data)
        self.tree = ttlv.parse(self.data)
        if self.tree[0] != TAG.RESPONSE_MESSAGE.value:
            raise ttlv.TTLVError("not a response message")
        hdr = ttlv.find(self.tree, TAG.RESPONSE_HEADER.value)
        pv = ttlv.find(hdr, TAG.PROTOCOL_VERSION.value)
        self.version = (ttlv.find(pv, TAG.PROTOCOL_VERSION_MAJOR.value)[2],
                        ttlv.find(pv, TAG.PROTOCOL_VERSION_MINOR.value)[2])
        ts = ttlv.find(hdr, TAG.TIME_STAMP.value)
        self.time_stamp = ts[2] if ts else None
        bc = ttlv.find(hdr, TAG.BATCH_COUNT.value)
        self.batch_count = bc[2] if bc else None
        self.items = []
        for n in ttlv.find_all(self.tree, TAG.RESPONSE_BATCH_ITEM.value):
            it = Item()
            it.node = n

            def val(tag):
                c = ttlv.find(n, tag.value)
                return c[2] if c else None
            it.operation = val(TAG.OPERATION)
            it.batch_id = val(TAG.UNIQUE_BATCH_ITEM_ID)
            it.status = val(TAG.RESULT_STATUS)
            it.reason = val(TAG.RESULT_REASON)
            it.message = val(TAG.RESULT_MESSAGE)
            it.payload = ttlv.find(n, TAG.RESPONSE_PAYLOAD.value)
            self.items.append(it)

    def key(self):
        """Everything observable except nothing: version, timestamp, items."""
        return (self.version, self.time_stamp, tuple(i.key() for i in self.items))

    def brief(self):
        return [i.brief() for i in self.items]

    # convenience accessors on the first item's payload
    def pfind(self, tag, item=0):
        p = self.items[item].payload
        if p is None:
            return None
        c = ttlv.find(p, tag.value)
        return c[2] if c else None

    def uid(self, item=0):
        return self.pfind(TAG.UNIQUE_IDENTIFIER, item)


# --------------------------------------------------------------------------------------------
# request builders (library's own classes)
# --------------------------------------------------------------------------------------------
AF = attr_factory_mod.AttributeFactory()
AT = enums.AttributeType
OP = enums.Operation
CUM = enums.CryptographicUsageMask
ALL_MASKS = list(CUM)


def attr(name, value, index=None):
    return AF.create_attribute(name, value, index)


def template(attrs):
    return cobjects.TemplateAttribute(attributes=list(attrs))


def sym_attrs(alg=enums.CryptographicAlgorithm.AES, length=128, masks=(CUM.ENCRYPT, CUM.DECRYPT),
              names=(), policy=None, groups=(), appinfo=(), sensitive=None, extra=()):
    a = [attr(AT.CRYPTOGRAPHIC_ALGORITHM, alg), attr(AT.CRYPTOGRAPHIC_LENGTH, length)]
    if masks is not None:
        a.append(attr(AT.CRYPTOGRAPHIC_USAGE_MASK, list(masks)))
    a += common_attrs(names, policy, groups, appinfo, sensitive)
    a += list(extra)
    return a


def common_attrs(names=(), policy=None, groups=(), appinfo=(), sensitive=None):
    a = []
    for i, n in enumerate(names):
        a.append(attr(AT.NAME, n, i))
    if policy is not None:
        a.append(attr(AT.OPERATION_POLICY_NAME, policy))
    for i, g in enumerate(groups):
        a.append(attr(AT.OBJECT_GROUP, g, i))
    for i, (ns, d) in enumerate(appinfo):
        a.append(attr(AT.APPLICATION_SPECIFIC_INFORMATION,
                      {"application_namespace": ns, "application_data": d}, i))
    if sensitive is not None:
        a.append(attr(AT.SENSITIVE, sensitive))
    return a


def p_create(attrs=None, object_type=enums.ObjectType.SYMMETRIC_KEY):
    if attrs is None:
        attrs = sym_attrs()
    return OP.CREATE, payloads.CreateRequestPayload(object_type, template(attrs))


def p_create_key_pair(common=None, private=None, public=None):
    def t(a, tag):
        if a is None:
            return None
        return cobjects.TemplateAttribute(attributes=list(a), tag=tag)
    return OP.CREATE_KEY_PAIR, payloads.CreateKeyPairRequestPayload(
        common_template_attribute=t(common, TAG.COMMON_TEMPLATE_ATTRIBUTE),
        private_key_template_attribute=t(private, TAG.PRIVATE_KEY_TEMPLATE_ATTRIBUTE),
        public_key_template_attribute=t(public, TAG.PUBLIC_KEY_TEMPLATE_ATTRIBUTE))


def rsa_pair_attrs(length=1024, pub_masks=(CUM.VERIFY,), priv_masks=(CUM.SIGN,)):
    common = [attr(AT.CRYPTOGRAPHIC_ALGORITHM, enums.CryptographicAlgorithm.RSA),
              attr(AT.CRYPTOGRAPHIC_LENGTH, length)]
    return dict(common=common,
                private=[attr(AT.CRYPTOGRAPHIC_USAGE_MASK, list(priv_masks))],
                public=[attr(AT.CRYPTOGRAPHIC_USAGE_MASK, list(pub_masks))])


OBJ_FACTORY = pfactory.ObjectFactory()


def p_register(pie_obj, attrs=(), object_type=None):
    secret = OBJ_FACTORY.convert(pie_obj)
    return OP.REGISTER, payloads.RegisterRequestPayload(
        object_type=object_type or pie_obj.object_type,
        template_attribute=template(attrs),
        managed_object=secret)


def p_get(uid=None, key_format_type=None, wrapping_spec=None, compression=None):
    return OP.GET, payloads.GetRequestPayload(
        unique_identifier=uid, key_format_type=key_format_type,
        key_compression_type=compression, key_wrapping_specification=wrapping_spec)


def wrapping_spec(kek_uid, mode=enums.BlockCipherMode.NIST_KEY_WRAP,
                  encoding=enums.EncodingOption.NO_ENCODING, attribute_names=None,
                  method=enums.WrappingMethod.ENCRYPT):
    return cobjects.KeyWrappingSpecification(
        wrapping_method=method,
        encryption_key_information=cobjects.EncryptionKeyInformation(
            unique_identifier=kek_uid,
            cryptographic_parameters=cattrs.CryptographicParameters(block_cipher_mode=mode)),
        attribute_names=attribute_names,
        encoding_option=encoding)


def p_get_attributes(uid=None, names=None):
    return OP.GET_ATTRIBUTES, payloads.GetAttributesRequestPayload(uid, names)


def p_get_attribute_list(uid=None):
    return OP.GET_ATTRIBUTE_LIST, payloads.GetAttributeListRequestPayload(uid)


def _uid_attr(uid):
    return cattrs.UniqueIdentifier(uid) if uid is not None else None


def p_activate(uid=None):
    return OP.ACTIVATE, payloads.ActivateRequestPayload(_uid_attr(uid))


def p_destroy(uid=None):
    return OP.DESTROY, payloads.DestroyRequestPayload(_uid_attr(uid))


def p_revoke(uid=None, code=enums.RevocationReasonCode.CESSATION_OF_OPERATION, message=None,
             compromise_date=None):
    reason = cobjects.RevocationReason(code=code, message=message)
    cd = None
    if compromise_date is not None:
        cd = primitives.DateTime(compromise_date, tag=TAG.COMPROMISE_OCCURRENCE_DATE)
    return OP.REVOKE, payloads.RevokeRequestPayload(_uid_attr(uid), reason, cd)


def p_locate(attrs=(), maximum=None, offset=None):
    return OP.LOCATE, payloads.LocateRequestPayload(
        maximum_items=maximum, offset_items=offset, attributes=list(attrs))


def p_query(functions=(enums.QueryFunction.QUERY_OPERATIONS,)):
    return OP.QUERY, payloads.QueryRequestPayload(list(functions))


def p_discover(versions=()):
    return OP.DISCOVER_VERSIONS, payloads.DiscoverVersionsRequestPayload(
        [contents.ProtocolVersion(a, b) for a, b in versions])


def crypto_params(**kw):
    return cattrs.CryptographicParameters(**kw)


def p_encrypt(uid=None, params='default', data=b'0123456789abcdef', iv=None, aad=None):
    if params == 'default':
        params = crypto_params(cryptographic_algorithm=enums.CryptographicAlgorithm.AES,
                               block_cipher_mode=enums.BlockCipherMode.CBC,
                               padding_method=enums.PaddingMethod.PKCS5)
    return OP.ENCRYPT, payloads.EncryptRequestPayload(uid, params, data, iv, aad)


def p_decrypt(uid=None, params='default', data=b'0123456789abcdef', iv=b'\x00' * 16, aad=None,
              tag=None):
    if params == 'default':
        params = crypto_params(cryptographic_algorithm=enums.CryptographicAlgorithm.AES,
                               block_cipher_mode=enums.BlockCipherMode.CBC,
                               padding_method=enums.PaddingMethod.PKCS5)
    return OP.DECRYPT, payloads.DecryptRequestPayload(uid, params, data, iv, aad, tag)


def p_sign(uid=None, params='default', data=b'message'):
    if params == 'default':
        params = crypto_params(cryptographic_algorithm=enums.CryptographicAlgorithm.RSA,
                               hashing_algorithm=enums.HashingAlgorithm.SHA_256,
                               padding_method=enums.PaddingMethod.PKCS1v15)
    return OP.SIGN, payloads.SignRequestPayload(uid, params, data)


def p_signature_verify(uid=None, params='default', data=b'message', signature=b'\x00' * 128):
    if params == 'default':
        params = crypto_params(cryptographic_algorithm=enums.CryptographicAlgorithm.RSA,
                               hashing_algorithm=enums.HashingAlgorithm.SHA_256,
                               padding_method=enums.PaddingMethod.PKCS1v15)
    return OP.SIGNATURE_VERIFY, payloads.SignatureVerifyRequestPayload(
        unique_identifier=uid, cryptographic_parameters=params, data=data,
        signature_data=signature)


def p_mac(uid=None, params='default', data=b'message'):
    if params == 'default':
        params = crypto_params(cryptographic_algorithm=enums.CryptographicAlgorithm.HMAC_SHA256)
    return OP.MAC, payloads.MACRequestPayload(
        _uid_attr(uid), params, cobjects.Data(data) if data is not None else None)


def p_derive_key(uids, method=enums.DerivationMethod.HMAC, object_type=enums.ObjectType.SYMMETRIC_KEY,
                 params=None, attrs=None):
    if params is None:
        params = cattrs.DerivationParameters(
            cryptographic_parameters=crypto_params(
                hashing_algorithm=enums.HashingAlgorithm.SHA_256),
            derivation_data=b'derivation-data')
    if attrs is None:
        attrs = sym_attrs(length=128)
    return OP.DERIVE_KEY, payloads.DeriveKeyRequestPayload(
        object_type=object_type, unique_identifiers=list(uids), derivation_method=method,
        derivation_parameters=params, template_attribute=template(attrs))


def attr_value(name, value):
    """The bare attribute value object (KMIP 2.0 Current/New attribute content)."""
    return AF.value_factory.create_attribute_value(name, value)


def p_set_attribute(uid, name, value):
    return OP.SET_ATTRIBUTE, payloads.SetAttributeRequestPayload(
        uid, cobjects.NewAttribute(attribute=attr_value(name, value)))


def p_modify_attribute_1x(uid, name, value, index=None):
    return OP.MODIFY_ATTRIBUTE, payloads.ModifyAttributeRequestPayload(
        unique_identifier=uid, attribute=attr(name, value, index))


def p_modify_attribute_20(uid, name, new_value, current_value=None):
    cur = None
    if current_value is not None:
        cur = cobjects.CurrentAttribute(attribute=attr_value(name, current_value))
    return OP.MODIFY_ATTRIBUTE, payloads.ModifyAttributeRequestPayload(
        unique_identifier=uid, current_attribute=cur,
        new_attribute=cobjects.NewAttribute(attribute=attr_value(name, new_value)))


def p_delete_attribute_1x(uid, name, index=None):
    return OP.DELETE_ATTRIBUTE, payloads.DeleteAttributeRequestPayload(
        unique_identifier=uid, attribute_name=name, attribute_index=index)


def p_delete_attribute_20(uid, name, current_value=None):
    if current_value is not None:
        if isinstance(name, str):
            name = AT(name)
        return OP.DELETE_ATTRIBUTE, payloads.DeleteAttributeRequestPayload(
            unique_identifier=uid,
            current_attribute=cobjects.CurrentAttribute(attribute=attr_value(name, current_value)))
    nm = name.value if isinstance(name, AT) else name
    return OP.DELETE_ATTRIBUTE, payloads.DeleteAttributeRequestPayload(
        unique_identifier=uid,
        attribute_reference=cobjects.AttributeReference(vendor_identification='verif',
                                                        attribute_name=nm))


def build_request(version, items, max_response_size=None, async_indicator=None, error_option=None,
                  order_option=None, time_stamp=None, credentials=None, batch_ids='auto',
                  batch_count=None):
    """items: list of (operation, payload). batch_ids: 'auto' (ids iff >1 item), 'all', 'none',
    or an explicit list (None entries = no id)."""
    n = len(items)
    if batch_ids == 'auto':
        ids = [b'%d' % (i + 1) for i in range(n)] if n > 1 else [None] * n
    elif batch_ids == 'all':
        ids = [b'%d' % (i + 1) for i in range(n)]
    elif batch_ids == 'none':
        ids = [None] * n
    else:
        ids = list(batch_ids)
    bis = []
    for (op, pl), bid in zip(items, ids):
        bis.append(messages.RequestBatchItem(
            operation=contents.Operation(op),
            unique_batch_item_id=contents.UniqueBatchItemID(bid) if bid is not None else None,
            request_payload=pl))
    auth = None
    if credentials is not None:
        auth = contents.Authentication(credentials)
    header = messages.RequestHeader(
        protocol_version=contents.ProtocolVersion(*version),
        maximum_response_size=(contents.MaximumResponseSize(max_response_size)
                               if max_response_size is not None else None),
        asynchronous_indicator=(contents.AsynchronousIndicator(async_indicator)
                                if async_indicator is not None else None),
        authentication=auth,
        batch_error_cont_option=(contents.BatchErrorContinuationOption(error_option)
                                 if error_option is not None else None),
        batch_order_option=(contents.BatchOrderOption(order_option)
                            if order_option is not None else None),
        time_stamp=contents.TimeStamp(time_stamp) if time_stamp is not None else None,
        batch_count=contents.BatchCount(n if batch_count is None else batch_count))
    return messages.RequestMessage(request_header=header, batch_items=bis)


def encode_request(msg, version=None):
    """Encode with the library. `version`: encode the body under this KMIP version although the
    header announces another one (a request from a foreign client library): the header's
    ProtocolVersion is patched on the independent TTLV tree."""
    pv = msg.request_header.protocol_version
    announced = (pv.major, pv.minor)
    if version is None or tuple(version) == announced:
        s = cutils.BytearrayStream()
        msg.write(s, kmip_version=KV.get(announced, enums.KMIPVersion.KMIP_1_0))
        return bytes(s.buffer)
    msg.request_header.protocol_version = contents.ProtocolVersion(*version)
    try:
        s = cutils.BytearrayStream()
        msg.write(s, kmip_version=KV[tuple(version)])
    finally:
        msg.request_header.protocol_version = pv
    return patch_version(bytes(s.buffer), announced)


def patch_version(data, version):
    tree = ttlv.parse(data)
    hdr = tree[2][0]
    pvn = hdr[2][0]
    assert pvn[0] == TAG.PROTOCOL_VERSION.value
    new_pv = (pvn[0], pvn[1], [(TAG.PROTOCOL_VERSION_MAJOR.value, ttlv.INTEGER, version[0]),
                               (TAG.PROTOCOL_VERSION_MINOR.value, ttlv.INTEGER, version[1])])
    new_hdr = (hdr[0], hdr[1], [new_pv] + list(hdr[2][1:]))
    return ttlv.encode((tree[0], tree[1], [new_hdr] + list(tree[2][1:])))


# --------------------------------------------------------------------------------------------
# the world
# --------------------------------------------------------------------------------------------
_TEMPLATE_DB = None


def template_db():
    """An empty database with the schema, built once per process by a real engine."""
    global _TEMPLATE_DB
    if _TEMPLATE_DB is None:
        d = tempfile.mkdtemp(prefix='verif-tpl-', dir=SCRATCH_BASE)
        p = os.path.join(d, 'template.db')
        e = engine_mod.KmipEngine(policies={}, database_path=p)
        e._data_store.dispose()
        _TEMPLATE_DB = p
        import atexit
        owner = os.getpid()
        atexit.register(lambda: shutil.rmtree(d, True) if os.getpid() == owner else None)
    return _TEMPLATE_DB


from mc import par as _par  # noqa: E402
_par.PRE_FORK.append(template_db)


def default_policies(extra=None):
    p = dict(core_policy.policies)
    if extra:
        p.update(extra)
    return p


def dump_db(path):
    """Raw view of the store: every row of every table, canonical and sorted."""
    con = sqlite3.connect('file:%s?mode=ro' % path, uri=True)
    try:
        out = {}
        tables = [r[0] for r in con.execute(
            "select name from sqlite_master where type='table' and name not like 'sqlite_%' "
            "order by name")]
        for t in tables:
            cols = [r[1] for r in con.execute("pragma table_info('%s')" % t)]
            rows = con.execute("select * from '%s'" % t).fetchall()
            out[t] = (tuple(cols), tuple(sorted(rows, key=repr)))
        seq = con.execute("select name, seq from sqlite_sequence order by name").fetchall() \
            if 'sqlite_sequence' in [r[0] for r in con.execute(
                "select name from sqlite_master")] else []
        out['#sequence'] = ((), tuple(seq))
        return out
    finally:
        con.close()


def db_key(dump, with_sequence=True):
    items = []
    for t in sorted(dump):
        if t == '#sequence' and not with_sequence:
            continue
        items.append((t, dump[t][1]))
    return repr(items)


class World(object):
    """One real engine on one scratch database file."""

    def __init__(self, policies=None, db_from=None, keep=False):
        self.dir = tempfile.mkdtemp(prefix='verif-w-', dir=SCRATCH_BASE)
        try:
            # long-lived base worlds of a worker process are never closed explicitly: remove their
            # scratch directory when the process ends (also in pool workers, which skip atexit)
            from multiprocessing import util as _mpu
            _mpu.Finalize(None, shutil.rmtree, args=(self.dir,), kwargs={'ignore_errors': True},
                          exitpriority=0)
        except Exception:   # noqa
            pass
        self.db = os.path.join(self.dir, 'kmip.db')
        shutil.copyfile(db_from or template_db(), self.db)
        self.policies = policies if policies is not None else default_policies()
        self.engine = None
        self.sessions = {}
        self.slugs_groups = {}    # user -> list of groups (None = user has no SLUGS entry)
        self.open_engine()

    # -- life cycle ------------------------------------------------------------------------
    def open_engine(self):
        self.engine = engine_mod.KmipEngine(policies=self.policies, database_path=self.db)
        self.sessions = {}
        return self.engine

    def restart(self, clean=True):
        """Clean: dispose the connection pool first. Kill: just drop the engine object."""
        if clean and self.engine is not None:
            self.engine._data_store.dispose()
        old = self.engine
        self.open_engine()
        if not clean:
            self._zombies = getattr(self, '_zombies', []) + [old]

    def clone(self):
        w = World(policies=self.policies, db_from=self.db)
        w.slugs_groups = dict(self.slugs_groups)
        return w

    def close(self):
        try:
            if self.engine is not None:
                self.engine._data_store.dispose()
            for z in getattr(self, '_zombies', []):
                z._data_store.dispose()
        finally:
            shutil.rmtree(self.dir, ignore_errors=True)

    def __enter__(self):
        return self

    def __exit__(self, *a):
        self.close()

    # -- observation ------------------------------------------------------------------------
    def dump(self):
        return dump_db(self.db)

    def raw_key(self, with_sequence=True):
        return db_key(self.dump(), with_sequence)

    # -- driving: session seam ---------------------------------------------------------------
    def session_for(self, user, groups=None, eku='client'):
        """groups='directory': ONE connection of this user whose group list is whatever
        SLUGS_DIRECTORY says at the time of each request (it may change between requests)."""
        k = (user, groups if groups == 'directory' else (tuple(groups) if groups is not None else None))
        s = self.sessions.get(k)
        if s is None:
            conn = FakeConnection(make_cert((user,) if user is not None else (), eku))
            auth_settings = None
            if groups == 'directory':
                auth_settings = [('auth:slugs', {'enabled': 'True', 'url': 'http://slugs/D=dir'})]
            elif groups is not None:
                auth_settings = [('auth:slugs', {'enabled': 'True', 'url': 'http://slugs/G=%s' % (
                    ','.join(groups))})]
            s = session_mod.KmipSession(self.engine, conn, ('127.0.0.1', 1), name='s-%s' % user,
                                        enable_tls_client_auth=True, auth_settings=auth_settings)
            self.sessions[k] = s
        return s

    def send_bytes(self, data, user='alice', groups=None):
        """One framed request through a real session; returns the raw response bytes (or None)."""
        s = self.session_for(user, groups)
        conn = s._connection
        conn.feed(data)
        n = len(conn.sent)
        s._handle_message_loop()
        if len(conn.sent) != n + 1:
            raise AssertionError("session sent %d responses for one request" % (len(conn.sent) - n))
        return conn.sent[-1]

    def send(self, msg, user='alice', groups=None, encode_as=None):
        return Resp(self.send_bytes(encode_request(msg, encode_as), user, groups))

    def do(self, version, items, user='alice', groups=None, encode_as=None, **header):
        if isinstance(items, tuple):
            items = [items]
        return self.send(build_request(version, items, **header), user, groups, encode_as)

    # -- driving: engine seam (identity given directly, request still goes through the codec) --
    def engine_call(self, msg, identity=('alice', None)):
        data = encode_request(msg)
        req = messages.RequestMessage()
        req.read(cutils.BytearrayStream(data), kmip_version=enums.KMIPVersion.KMIP_1_2)
        try:
            response, max_size, pv = self.engine.process_request(req, identity)
        except exceptions.KmipError as e:
            response = self.engine.build_error_response(
                req.request_header.protocol_version, e.reason, str(e))
            pv = req.request_header.protocol_version
        s = cutils.BytearrayStream()
        response.write(s, kmip_version=contents.protocol_version_to_kmip_version(pv))
        return Resp(bytes(s.buffer))


def _engine_direct(self, msg, identity=('alice', None)):
    """Engine seam WITHOUT the codec on the way in: the request object goes straight into
    process_request (reaches header handling for versions the decoder would already refuse)."""
    pv = msg.request_header.protocol_version
    try:
        response, max_size, pv = self.engine.process_request(msg, identity)
    except exceptions.KmipError as e:
        response = self.engine.build_error_response(pv, e.reason, str(e))
    kv = contents.protocol_version_to_kmip_version(pv) or enums.KMIPVersion.KMIP_1_0
    try:
        s = cutils.BytearrayStream()
        response.write(s, kmip_version=kv)
    except Exception:   # noqa - the answer cannot be expressed in that version: show it as 2.0
        s = cutils.BytearrayStream()
        response.write(s, kmip_version=enums.KMIPVersion.KMIP_2_0)
    return Resp(bytes(s.buffer))


World.engine_direct = _engine_direct


# SLUGS stand-in: the session's SLUGS connector asks `requests.get`; answer from the URL itself
# (http://slugs/<g1,g2>/users/<user>[/groups]) so that no shared mutable state is involved.
def http_response(url, status, body):
    """A REAL requests.Response (so raise_for_status(), .ok, .text, .json() behave as in production):
    body is a JSON-able value, or the string 'NONJSON' for a body that is not JSON."""
    import json as _json
    import requests
    r = requests.models.Response()
    r.status_code = status
    r.url = url
    r.reason = {200: 'OK', 204: 'No Content', 401: 'Unauthorized', 404: 'Not Found',
                500: 'Internal Server Error', 503: 'Service Unavailable'}.get(status, 'Status')
    r._content = b'<html>not json</html>' if body == 'NONJSON' else _json.dumps(body).encode()
    r.encoding = 'utf-8'
    r.headers['Content-Type'] = 'text/html' if body == 'NONJSON' else 'application/json'
    return r


def http_connection_error(url, what='Connection refused'):
    """The exception the real library raises when the service cannot be reached (its text names the
    host, port and path - not the credentials - as urllib3's does)."""
    import requests
    from urllib.parse import urlsplit
    u = urlsplit(url)
    return requests.exceptions.ConnectionError(
        "HTTPConnectionPool(host=%r, port=%s): Max retries exceeded with url: %s (Caused by "
        "NewConnectionError('%s'))" % (u.hostname, u.port or 80, u.path, what))


def _SlugsResponse(status, body, url='http://slugs/'):
    return http_response(url, status, body)


# A second URL form, http://slugs/D=<name>/users/<user>[/groups], answers from the read-only table
# SLUGS_DIRECTORY (user -> groups; users not listed get 404): one service URL for all users, as a
# real deployment has, so that sessions can share one auth configuration object. SLUGS_HOOK, if
# set, is called with the URL before every answer (an I/O point the schedule explorer can own).
SLUGS_DIRECTORY = {}
SLUGS_HOOK = None


def _slugs_get(url, timeout=None):
    assert url.startswith('http://slugs/'), url
    if SLUGS_HOOK is not None:
        SLUGS_HOOK(url)
    if url.startswith('http://slugs/D='):
        _, _, tail = url.partition('/users/')
        user = tail[:-len('/groups')] if tail.endswith('/groups') else tail
        if user not in SLUGS_DIRECTORY:
            return _SlugsResponse(404, {}, url)
        if tail.endswith('/groups'):
            return _SlugsResponse(200, {'groups': list(SLUGS_DIRECTORY[user])}, url)
        return _SlugsResponse(200, {}, url)
    rest = url[len('http://slugs/G='):]
    groups_part, sep, tail = rest.partition('/users/')
    assert sep, url
    if tail.endswith('/groups'):
        groups = [g for g in groups_part.split(',') if g]
        return _SlugsResponse(200, {'groups': groups}, url)
    return _SlugsResponse(200, {}, url)


from kmip.services.server.auth import slugs as _slugs_mod  # noqa: E402


class _RequestsProxy(object):
    get = staticmethod(_slugs_get)

    def __getattr__(self, name):
        import requests
        return getattr(requests, name)


_slugs_mod.requests = _RequestsProxy()


# --------------------------------------------------------------------------------------------
# stock objects
# --------------------------------------------------------------------------------------------
RSA_PRIV_DER = None
RSA_PUB_DER = None


def rsa_fixture():
    """One fixed 1024-bit RSA test pair (PKCS#1 DER) kept under mc/fixtures (a throwaway key)."""
    global RSA_PRIV_DER, RSA_PUB_DER
    if RSA_PRIV_DER is None:
        d = os.path.join(os.path.dirname(os.path.abspath(__file__)), 'fixtures')
        RSA_PRIV_DER = open(os.path.join(d, 'rsa1024_priv.der'), 'rb').read()
        RSA_PUB_DER = open(os.path.join(d, 'rsa1024_pub.der'), 'rb').read()
    return RSA_PRIV_DER, RSA_PUB_DER


def pie_symmetric(value=b'\x11' * 16, alg=enums.CryptographicAlgorithm.AES, length=128, masks=None):
    return pobjects.SymmetricKey(alg, length, value, masks=list(masks) if masks else None)


def pie_public(masks=None):
    return pobjects.PublicKey(enums.CryptographicAlgorithm.RSA, 1024, rsa_fixture()[1],
                              enums.KeyFormatType.PKCS_1, masks=list(masks) if masks else None)


def pie_private(masks=None):
    return pobjects.PrivateKey(enums.CryptographicAlgorithm.RSA, 1024, rsa_fixture()[0],
                               enums.KeyFormatType.PKCS_1, masks=list(masks) if masks else None)


def pie_secret(value=b'\x22' * 12, masks=None):
    return pobjects.SecretData(value, enums.SecretDataType.PASSWORD,
                               masks=list(masks) if masks else None)


def pie_opaque(value=b'\x33' * 10):
    return pobjects.OpaqueObject(value, enums.OpaqueDataType.NONE)


def pie_certificate(masks=None):
    der = open(os.path.join(os.path.dirname(os.path.abspath(__file__)), 'fixtures',
                            'cert_subject.der'), 'rb').read()
    return pobjects.X509Certificate(der,
                                    masks=list(masks) if masks else None)


def pie_split(value=b'\x44' * 16, masks=None):
    return pobjects.SplitKey(
        cryptographic_algorithm=enums.CryptographicAlgorithm.AES, cryptographic_length=128,
        key_value=value, cryptographic_usage_masks=list(masks) if masks else None,
        split_key_parts=3, key_part_identifier=1, split_key_threshold=2,
        split_key_method=enums.SplitKeyMethod.XOR)


KINDS = {
    'SymmetricKey': pie_symmetric, 'PublicKey': pie_public, 'PrivateKey': pie_private,
    'SplitKey': pie_split, 'SecretData': pie_secret, 'Certificate': pie_certificate,
    'OpaqueObject': pie_opaque,
}


# --------------------------------------------------------------------------------------------
# pooled RSA key generation (opt-in): CreateKeyPair without paying for prime search each time
# --------------------------------------------------------------------------------------------
class _RsaProxy(object):
    def __init__(self, real):
        self._real = real
        self._pool = {}
        self._next = {}
        self.pool_size = 3

    def generate_private_key(self, public_exponent, key_size, backend=None):
        pool = self._pool.setdefault((public_exponent, key_size), [])
        i = self._next.get((public_exponent, key_size), 0)
        if len(pool) < self.pool_size:
            pool.append(self._real.generate_private_key(public_exponent=public_exponent,
                                                        key_size=key_size))
        self._next[(public_exponent, key_size)] = i + 1
        return pool[i % min(len(pool), self.pool_size)]

    def __getattr__(self, name):
        return getattr(self._real, name)


def use_rsa_pool(size=None):
    """size=1 makes every generated pair the same key (batch-vs-twin comparisons)."""
    if not isinstance(crypto_mod.rsa, _RsaProxy):
        crypto_mod.rsa = _RsaProxy(crypto_mod.rsa)
    if size is not None:
        crypto_mod.rsa.pool_size = size


OPEN_POLICY = {'preset': {ot: {op: enums.Policy.ALLOW_ALL for op in enums.Operation}
                          for ot in enums.ObjectType}}
