"""Fan-out over long-lived worker processes (no fork per execution)."""
import multiprocessing
import os
import traceback

PRE_FORK = []      # callables run in the parent before workers are forked (shared scratch files)

NPROC = int(os.environ.get('VERIF_PROCS', '0')) or min(16, os.cpu_count() or 1)


def _guard(args):
    fn, task = args
    try:
        return fn(task)
    except Exception:
        return {'errors': ['worker crashed on task %r:\n%s' % (task, traceback.format_exc())]}


def pmap(fn, tasks, procs=None, chunksize=1):
    """fn(task) -> dict (Part.as_dict()). fn must be a module-level function. A worker process that
    dies (killed, interpreter crash) does not hang the run: its tasks and those not yet started are
    reported as harness errors."""
    import concurrent.futures as cf
    from concurrent.futures.process import BrokenProcessPool
    tasks = list(tasks)
    procs = procs or NPROC
    if procs <= 1 or len(tasks) <= 1:
        return [_guard((fn, t)) for t in tasks]
    for hook in PRE_FORK:
        hook()
    ctx = multiprocessing.get_context('fork')
    out = [None] * len(tasks)
    ex = cf.ProcessPoolExecutor(max_workers=min(procs, len(tasks)), mp_context=ctx)
    try:
        futs = [ex.submit(_guard, (fn, t)) for t in tasks]
        for i, f in enumerate(futs):
            try:
                out[i] = f.result()
            except BrokenProcessPool:
                out[i] = {'errors': ['a worker process died while task %r was pending or running '
                                     '(killed or interpreter crash)' % (tasks[i],)]}
            except Exception:   # noqa
                out[i] = {'errors': ['task %r could not be completed:\n%s' % (tasks[i], traceback.format_exc())]}
    finally:
        ex.shutdown(wait=False, cancel_futures=True)
    return out
