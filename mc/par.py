"""Fan-out over long-lived worker processes (no fork per execution)."""
import multiprocessing
import os
import traceback

PRE_FORK = []      # callables run in the parent before workers are forked (shared scratch files)

NPROC = int(os.environ.get('VERIF_PROCS', '0')) or min(16, os.cpu_count() or 1)


def _guard(args):
    fn, task = args
    try:
        return fn(task)
    except Exception:
        return {'errors': ['worker crashed on task %r:\n%s' % (task, traceback.format_exc())]}


def pmap(fn, tasks, procs=None, chunksize=1):
    """fn(task) -> dict (Part.as_dict()). fn must be a module-level function."""
    tasks = list(tasks)
    procs = procs or NPROC
    if procs <= 1 or len(tasks) <= 1:
        return [_guard((fn, t)) for t in tasks]
    for hook in PRE_FORK:
        hook()
    ctx = multiprocessing.get_context('fork')
    with ctx.Pool(min(procs, len(tasks))) as pool:
        return pool.map(_guard, [(fn, t) for t in tasks], chunksize)
