"""C17 - no request is evaluated before the client's identity is established.

Complete product at the session seam (real KmipSession, real engine behind a spy):
certificate shape x extended key usage x enable_tls_client_auth x plugin configuration x scripted
SLUGS answers x request. Oracle: the engine is entered iff the reference says an identity is
established, exactly once and with exactly that identity; otherwise the answer is
AUTHENTICATION_NOT_SUCCESSFUL and nothing changes.
"""
import itertools
import json

from mc import world as W
from mc.world import enums
from mc.report import Reporter, Part
from mc.par import pmap

from kmip.services.server.auth import slugs as slugs_mod

RR = enums.ResultReason

CERTS = [('absent', None, None)] + [
    (('cn%d' % len(cns)) + '/' + str(eku), cns, eku)
    for cns in ((), ('alice',), ('alice', 'mallory'))
    for eku in (None, 'server', 'client')]

# further extended-key-usage shapes (one common name): key purposes whose OID merely CONTAINS or
# extends the clientAuth OID 1.3.6.1.5.5.7.3.2, other purposes, anyExtendedKeyUsage, several
# purposes with and without clientAuth, a critical extension
EKU_SHAPES = [('1.3.6.1.5.5.7.3.20',), ('1.3.6.1.5.5.7.3.21', 'server'), ('1.3.6.1.5.5.7.3.2.1',),
              ('1.3.6.1.5.5.7.3',), ('any',), ('server', '1.3.6.1.5.5.7.3.3', '1.3.6.1.5.5.7.3.4'),
              ('server', 'client'), ('1.3.6.1.5.5.7.3.8', 'client', 'any'), ('!client',), ('!server',)]
CERTS += [('cn1/' + '+'.join(e), ('alice',), e) for e in EKU_SHAPES]
# common names that are blank: still common names (two CN attributes are two, whatever they hold)
CERTS += [('cn2-blank-first/client', (' ', 'alice'), 'client'), ('cn2-blank-last/client', ('alice', ' '), 'client'),
          ('cn2-blank-both/client', (' ', '  '), 'client'), ('cn1-blank/client', (' ',), 'client'),
          ('cn3/client', ('alice', 'bob', 'carol'), 'client')]

# scripted answers of one SLUGS service, encoded in its URL
SLUGS_SCRIPTS = ['ok:g1', 'ok:', 'ok:g1,g2', 'ok-nokey', 'user404', 'groups404', 'connerr1', 'connerr2',
                 'nonjson', 'user500', 'groups500']


def _Resp(status, body, url='http://slugs/'):
    # a real requests.Response, so that whatever the connector asks of it behaves as in production
    return W.http_response(url, status, body)


class ScriptedRequests(object):
    """Stands in for the `requests` module inside auth/slugs.py."""

    def __init__(self):
        self.calls = []
        self.request_index = 0

    def __getattr__(self, name):          # exceptions, codes, ...: the real module's
        import requests
        return getattr(requests, name)

    def get(self, url, timeout=None):
        self.calls.append(url)
        assert url.startswith('http://slugs/S='), url
        R = lambda st, b: W.http_response(url, st, b)      # noqa: E731
        script, _, tail = url[len('http://slugs/S='):].partition('/users/')
        is_groups = tail.endswith('/groups')
        if script.startswith('seq='):
            # the directory's behaviour changes from one request of the connection to the next
            steps = script[4:].split('|')
            script = steps[min(self.request_index, len(steps) - 1)]
        if script.startswith('ok:'):
            groups = [g for g in script[3:].split(',') if g]
            return R(200, {'groups': groups} if is_groups else {})
        if script == 'ok-nokey':
            return R(200, {})
        if script == 'user404':
            return R(404, {}) if not is_groups else R(200, {'groups': ['g1']})
        if script == 'groups404':
            return R(404, {}) if is_groups else R(200, {})
        if script == 'connerr1':
            if not is_groups:
                raise W.http_connection_error(url, 'Connection refused')
            return R(200, {'groups': ['g1']})
        if script == 'connerr2':
            if is_groups:
                raise W.http_connection_error(url, 'Connection reset by peer')
            return R(200, {})
        if script == 'nonjson':
            return R(200, 'NONJSON')
        if script == 'user500':
            return R(500, {}) if not is_groups else R(200, {'groups': ['g1']})
        if script == 'groups500':
            return R(500, 'NONJSON') if is_groups else R(200, {})
        raise AssertionError(script)


def slugs_block(script, enabled='True', name='auth:slugs'):
    return (name, {'enabled': enabled, 'url': 'http://slugs/S=%s' % script})


def plugin_configs(tier):
    """(label, auth_settings)"""
    out = [('none', None), ('empty', [])]
    out.append(('disabled', [slugs_block('ok:g1', 'False')]))
    out.append(('unsupported', [('auth:ldap', {'enabled': 'True', 'url': 'x'})]))
    out.append(('enabled-lowercase-true', [slugs_block('ok:g1', 'true')]))
    out.append(('no-url', [('auth:slugs', {'enabled': 'True'})]))
    for s in SLUGS_SCRIPTS:
        out.append(('one:%s' % s, [slugs_block(s)]))
    pair = ['ok:g1', 'ok:g2', 'user404', 'connerr1', 'groups404'] if tier == 'quick' else SLUGS_SCRIPTS
    for a in pair:
        for b in pair:
            out.append(('two:%s+%s' % (a, b), [slugs_block(a, name='auth:slugs1'),
                                               slugs_block(b, name='auth:slugs2')]))
    for a in ('ok:g1', 'user404', 'connerr1'):
        out.append(('slugs+unsupported:%s' % a, [slugs_block(a), ('auth:ldap', {'enabled': 'True'})]))
        out.append(('unsupported+slugs:%s' % a, [('auth:ldap', {'enabled': 'True'}), slugs_block(a)]))
        out.append(('enabled+disabled:%s' % a, [slugs_block(a, name='auth:slugs1'),
                                                slugs_block('ok:g9', 'False', name='auth:slugs2')]))
        out.append(('disabled+enabled:%s' % a, [slugs_block('ok:g9', 'False', name='auth:slugs1'),
                                                slugs_block(a, name='auth:slugs2')]))
    if tier == 'thorough':
        for a, b, c in itertools.product(['ok:g1', 'user404', 'connerr2'], repeat=3):
            out.append(('three:%s+%s+%s' % (a, b, c), [
                slugs_block(a, name='auth:slugs1'), slugs_block(b, 'False' if b == 'user404' else 'True',
                                                                name='auth:slugs2'),
                slugs_block(c, name='auth:slugs3')]))
    return out


def vouch(script, cns):
    """Reference: does this SLUGS service vouch? -> (True, groups) | (False, None) | ('either', groups)"""
    if len(cns) != 1:
        return (False, None)
    if script.startswith('ok:'):
        return (True, [g for g in script[3:].split(',') if g])
    if script == 'ok-nokey':
        return (True, None)
    if script in ('user404', 'groups404', 'connerr1', 'connerr2', 'nonjson', 'groups500'):
        return (False, None)
    if script == 'user500':
        # an HTTP 500 on the user lookup is not a vouch; PyKMIP only treats 404 as refusal
        return (False, None)
    raise AssertionError(script)


def reference(cns, eku, tls_auth, settings):
    """-> None (no identity) or (user, groups)."""
    if cns is None:
        return None
    has_client_auth = (eku == 'client') if not isinstance(eku, tuple) else (
        'client' in [e.lstrip('!') for e in eku])
    if tls_auth and not has_client_auth:
        return None
    enabled = []
    for name, cfg in (settings or []):
        if name.startswith('auth:slugs') and cfg.get('enabled') == 'True':
            enabled.append(cfg)
    if not enabled:
        return (cns[0], None) if len(cns) == 1 else None
    for cfg in enabled:
        url = cfg.get('url')
        if not url:
            continue
        ok, groups = vouch(url[len('http://slugs/S='):], cns)
        if ok:
            return (cns[0], groups)
    return None


def requests_menu():
    return {
        'create': lambda: [W.p_create()],
        'get': lambda: [W.p_get('1')],
        'query': lambda: [W.p_query()],
        'batch': lambda: [W.p_create(), W.p_locate()],
        'destroy': lambda: [W.p_destroy('1')],
    }


_BASE = None


def base():
    global _BASE
    if _BASE is None:
        W.CLOCK.now = W.T0
        _BASE = W.World()
        _BASE.do((1, 2), W.p_create())     # object 1 of alice
    return _BASE


def run_case(cert, tls_auth, plabel, settings, rname, version=(1, 2)):
    clabel, cns, eku = cert
    w = base().clone()
    stub = ScriptedRequests()
    old = slugs_mod.requests
    slugs_mod.requests = stub
    try:
        calls = []
        real = w.engine.process_request

        def spy(request, credential=None):
            calls.append(credential)
            return real(request, credential)
        w.engine.process_request = spy
        before = w.raw_key()
        der = None if cns is None else W.make_cert(cns, eku)
        data = W.encode_request(W.build_request(version, requests_menu()[rname]()))
        conn = W.FakeConnection(der, data)
        sess = W.session_mod.KmipSession(w.engine, conn, ('127.0.0.1', 1), name='c17',
                                         enable_tls_client_auth=tls_auth, auth_settings=settings)
        W.CLOCK.now = W.T0 + 5
        problems = []
        try:
            sess._handle_message_loop()
        except Exception as e:    # noqa
            problems.append(("session-raises", "%s: %s" % (type(e).__name__, e)))
        after = w.raw_key()
        exp = reference(cns, eku, tls_auth, settings)
        resp = W.Resp(conn.sent[-1]) if conn.sent else None
        if len(conn.sent) != 1:
            problems.append(("responses", "%d responses sent" % len(conn.sent)))
        if exp is None:
            if calls:
                problems.append(("engine-entered-without-identity",
                                 "process_request was called with %r although no identity is "
                                 "established" % (calls,)))
            if resp is not None:
                it = resp.items[0]
                if it.ok() or it.reason != RR.AUTHENTICATION_NOT_SUCCESSFUL.value:
                    problems.append(("wrong-answer", "answer is %s, expected authentication not "
                                     "successful" % resp.brief()))
            if after != before:
                problems.append(("store-changed", "the store changed although authentication failed"))
        else:
            want = (exp[0], exp[1])
            if len(calls) != 1:
                problems.append(("engine-calls", "process_request called %d times, identity %r is "
                                 "established" % (len(calls), want)))
            else:
                got = calls[0]
                g = (got[0], list(got[1]) if got[1] is not None else None) if got else got
                if g != (want[0], want[1]):
                    problems.append(("wrong-identity", "engine received identity %r, established "
                                     "identity is %r" % (got, want)))
        return problems, (exp is not None, len(calls), resp.brief()[0] if resp and resp.items else None)
    finally:
        slugs_mod.requests = old
        w.close()


SEQUENCES = [('ok:g1', 'user404'), ('user404', 'ok:g1'), ('ok:g1', 'connerr1', 'ok:g2'), ('ok:g1', 'ok:'),
             ('ok:g1,g2', 'groups404', 'ok:g1'), ('ok:g1', 'nonjson'), ('connerr2', 'ok:g2', 'user500'),
             ('ok:g1', 'ok:g2', 'ok:g1')]
_CRED = W.cobjects.Credential(
    credential_type=enums.CredentialType.USERNAME_AND_PASSWORD,
    credential_value=W.cobjects.UsernamePasswordCredential(username='mallory', password='pw'))


def run_sequence(cns, scripts, with_creds, rname):
    """Several requests on ONE connection while the directory's answer changes between them: every
    request is judged by the answer the directory gives for THAT request. Returns (problems, sig)."""
    w = base().clone()
    stub = ScriptedRequests()
    old = slugs_mod.requests
    slugs_mod.requests = stub
    problems, sig = [], []
    try:
        calls = []
        real = w.engine.process_request

        def spy(request, credential=None):
            calls.append(credential)
            return real(request, credential)
        w.engine.process_request = spy
        settings = [slugs_block('seq=' + '|'.join(scripts))]
        conn = W.FakeConnection(W.make_cert(cns, 'client'))
        sess = W.session_mod.KmipSession(w.engine, conn, ('127.0.0.1', 1), name='c17s',
                                         enable_tls_client_auth=True, auth_settings=settings)
        for k, script in enumerate(scripts):
            stub.request_index = k
            hdr = {'credentials': [_CRED]} if with_creds else {}
            data = W.encode_request(W.build_request((1, 2), requests_menu()[rname](), **hdr))
            W.CLOCK.now = W.T0 + 5 + k
            before, n_calls, n_sent = w.raw_key(), len(calls), len(conn.sent)
            conn.feed(data)
            try:
                sess._handle_message_loop()
            except Exception as e:    # noqa
                problems.append(("session-raises", "request %d: %s: %s" % (k + 1, type(e).__name__, e)))
            mine = calls[n_calls:]
            ok, groups = vouch(script, cns)
            if len(conn.sent) != n_sent + 1:
                problems.append(("responses", "request %d: %d responses" % (k + 1, len(conn.sent) - n_sent)))
                continue
            resp = W.Resp(conn.sent[-1])
            sig.append((bool(ok), len(mine)))
            if not ok:
                if mine:
                    problems.append(("engine-entered-without-identity",
                                     "request %d of the connection (directory answers '%s' now, earlier "
                                     "answers %s): process_request was called with %r" % (
                                         k + 1, script, list(scripts[:k]), mine)))
                if resp.items[0].ok() or resp.items[0].reason != RR.AUTHENTICATION_NOT_SUCCESSFUL.value:
                    problems.append(("wrong-answer", "request %d: answer %s" % (k + 1, resp.brief())))
                if w.raw_key() != before:
                    problems.append(("store-changed", "request %d changed the store" % (k + 1)))
            else:
                got = [(c[0], list(c[1]) if c[1] is not None else None) if c else c for c in mine]
                if got != [(cns[0], groups)]:
                    problems.append(("wrong-identity", "request %d of the connection (directory answers '%s' "
                                     "now, earlier answers %s): engine received %r, established identity is "
                                     "%r" % (k + 1, script, list(scripts[:k]), got, (cns[0], groups))))
        return problems, tuple(sig)
    finally:
        slugs_mod.requests = old
        w.close()


def _seq_worker(task):
    part = Part()
    outs = set()
    for cns, scripts, with_creds, rname in task:
        problems, sig = run_sequence(cns, scripts, with_creds, rname)
        part.count('cases')
        part.count('sequence_cases')
        outs.add(('sequence', sig, with_creds))
        for key, what in problems:
            part.violation("%s|sequence:%s|creds=%s" % (key, '+'.join(scripts), with_creds),
                           "one connection of %s, directory answers %s, request %s%s: %s" % (
                               cns[0], list(scripts), rname, ' with header credentials' if with_creds else '',
                               what),
                           {'sequence': list(scripts), 'cns': list(cns), 'creds': with_creds, 'request': rname})
    out = part.as_dict()
    out['out'] = sorted(outs, key=repr)
    return out


def sequence_cases(tier):
    return [(cns, sc, cr, r) for cns in (('alice',), ('bob',)) for sc in SEQUENCES for cr in (False, True)
            for r in (['create', 'get'] if tier == 'quick' else list(requests_menu()))]


def _worker(task):
    cases, = task
    part = Part()
    outs = set()
    for cert, tls_auth, plabel, settings, rname in cases:
        problems, sig = run_case(cert, tls_auth, plabel, settings, rname)
        part.count('cases')
        outs.add((cert[0], tls_auth, plabel.split(':')[0], sig[0], sig[1]))
        for key, what in problems:
            part.violation("%s|%s|cert=%s|tls=%s" % (key, plabel, cert[0], tls_auth),
                           "certificate %s, enable_tls_client_auth=%s, plugins %s, request %s: %s" % (
                               cert[0], tls_auth, plabel, rname, what),
                           {'cert': cert[0], 'tls': tls_auth, 'plugins': plabel, 'request': rname})
    part.sample({'cert': cases[-1][0][0], 'tls_client_auth': cases[-1][1], 'plugins': cases[-1][2],
                 'request': cases[-1][4]})
    out = part.as_dict()
    out['out'] = sorted(outs, key=repr)
    return out


def all_cases(tier):
    reqs = list(requests_menu()) if tier == 'thorough' else ['create', 'get', 'batch']
    out = []
    for cert in CERTS:
        for tls_auth in (True, False):
            for plabel, settings in plugin_configs(tier):
                for r in reqs:
                    out.append((cert, tls_auth, plabel, settings, r))
    return out


def run(tier, seed):
    rep = Reporter('C17', 'fault_enumeration', tier, seed)
    cases = all_cases(tier)
    n = 32
    outs = set()
    for part in pmap(_worker, [(cases[i::n],) for i in range(n)]):
        outs.update(repr(o) for o in part.pop('out', []))
        rep.merge(part)
    seqs = sequence_cases(tier)
    for part in pmap(_seq_worker, [seqs[i::8] for i in range(8)]):
        outs.update(repr(o) for o in part.pop('out', []))
        rep.merge(part)
    cases = cases + seqs
    c = rep.counters.get('cases', 0)
    est = len([o for o in outs if ", True, 1)" in o])
    if c != len(cases) or est < 10 or len(outs) < 60:
        rep.harness_error("vacuous: %d cases, %d outcome classes, %d with identity established" % (
            c, len(outs), est))
    return rep.finish(dict(
        evaluations=c, distinct_nontrivial=len(outs),
        rule="complete product certificate (absent / 0,1,2 common names x EKU absent, serverAuth, "
             "clientAuth) x enable_tls_client_auth x plugin configuration (none, empty, disabled, "
             "unsupported plugin, one SLUGS block with each of 11 scripted HTTP behaviours, two blocks "
             "in all orders, mixes of enabled/disabled/unsupported blocks) x request; plus 8 sequences of 2-3 "
             "requests on ONE connection while the directory's answer changes between them (with and "
             "without Username/Password credentials in the request header); "
             "distinct_nontrivial = distinct (certificate, flag, configuration kind, identity "
             "established?, engine calls) classes",
        certificates=len(CERTS), plugin_configurations=len(plugin_configs(tier)),
        points_total=len(cases), points_covered=c, exhaustive=True,
    ), assumptions=[
        "SLUGS is replaced by scripted HTTP answers inside kmip.services.server.auth.slugs; TLS "
        "itself (certificate validation by the ssl module) is outside the session code and not driven",
        "a SLUGS service vouches only with HTTP 200 answers to both lookups",
    ])


def replay(doc):
    if 'sequence' in doc:
        problems, sig = run_sequence(tuple(doc['cns']), tuple(doc['sequence']), doc['creds'], doc['request'])
        return bool(problems), '\n'.join("%s: %s" % p for p in problems) or 'no violation'
    cert = [c for c in CERTS if c[0] == doc['cert']][0]
    settings = dict(plugin_configs('thorough'))[doc['plugins']]
    problems, sig = run_case(cert, doc['tls'], doc['plugins'], settings, doc['request'])
    return bool(problems), "%s %s" % (sig, problems or 'as the reference says')
