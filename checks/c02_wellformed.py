"""C02 - everything emitted is spec-conformant TTLV; responses follow the envelope.

(i)  every byte string the codec emits for the C01 value universe is parsed by the independent,
     strict TTLV parser and must re-encode canonically to the same bytes;
(ii) every response a real session+engine emits over a history set (every operation x success and
     every error class, request-level rejections, undecodable frames, authentication failures,
     oversize replacement) x 6 versions must be strict TTLV and follow the message envelope.
"""
import struct

from mc import world as W
from mc.ref import shapes, ttlv
from mc.report import Reporter, Part
from mc.par import pmap
from checks import c01_roundtrip as c01

from kmip.core import enums

T = enums.Tags
KV = shapes.KV
SUPPORTED = set(W.VERSIONS)


def strict_problem(b):
    """None if b is canonical strict TTLV, else a description."""
    try:
        tree = ttlv.parse(b, strict=True)
    except ttlv.TTLVError as e:
        return str(e)
    has_big = any(n[1] == ttlv.BIG_INTEGER for _, n in ttlv.walk(tree))
    if not has_big and ttlv.encode(tree) != bytes(b):
        return "not the canonical encoding of its own content"
    return None


# ---- (i) codec output -------------------------------------------------------------------------
def check_class_bytes(name, part):
    R = c01.registry()
    cls = R.classes[name]
    for label, kw in R.values(name, sweep=True):
        if label[0] == 'sweep-full':
            continue
        obj, err = shapes.try_construct(cls, kw)
        if obj is None:
            continue
        for kv in KV:
            try:
                b = shapes.encode(obj, kv)
            except Exception:   # noqa
                continue
            part.count('encodings')
            why = strict_problem(b)
            part.counters.setdefault('_out', set()).add((name, why is None))
            if why:
                part.violation("codec|%s|%s" % (name, why.split(' at ')[0][:50]),
                               "%s(%s) under KMIP %s emits %s...: %s" % (
                                   name, ', '.join('%s=%s' % (p, shapes.describe(v))
                                                   for p, v in kw.items() if v is not None),
                                   kv.value, b.hex()[:80], why),
                               {'class': name, 'label': c01._jl(label)})


# ---- (ii) server responses ----------------------------------------------------------------------
def envelope_problems(data, request_version, request_decodable):
    """List of (key, what) for one response byte string."""
    bad = []
    why = strict_problem(data)
    if why:
        return [("response-not-ttlv", why)]
    tree = ttlv.parse(data)
    # canonical: re-encoding the parsed tree with the independent encoder reproduces the bytes
    # (Big Integers excepted: a longer sign extension is still the same number)
    if not any(n[1] == ttlv.BIG_INTEGER for _, n in ttlv.walk(tree)):
        again = ttlv.encode(tree)
        if again != bytes(data):
            i = next((k for k in range(min(len(again), len(data))) if again[k] != data[k]), min(len(again), len(data)))
            bad.append(("response-not-canonical", "the independent encoder writes the same tree differently "
                        "from byte %d on (%s vs %s)" % (i, bytes(data)[i:i + 12].hex(), again[i:i + 12].hex())))
    if tree[0] != T.RESPONSE_MESSAGE.value or tree[1] != ttlv.STRUCTURE:
        return [("not-a-response-message", "top-level tag %06x" % tree[0])]
    kids = tree[2]
    if not kids or kids[0][0] != T.RESPONSE_HEADER.value:
        return [("no-header", "first item is not a response header")]
    hdr = kids[0]
    htags = [c[0] for c in hdr[2]]
    for need in (T.PROTOCOL_VERSION, T.TIME_STAMP, T.BATCH_COUNT):
        if htags.count(need.value) != 1:
            bad.append(("header|missing-%s" % need.name, "header has %d %s" % (
                htags.count(need.value), need.name)))
    if bad:
        return bad
    pv = ttlv.find(hdr, T.PROTOCOL_VERSION.value)
    version = (ttlv.find(pv, T.PROTOCOL_VERSION_MAJOR.value)[2],
               ttlv.find(pv, T.PROTOCOL_VERSION_MINOR.value)[2])
    if request_decodable and request_version in SUPPORTED:
        if version != tuple(request_version):
            bad.append(("header|version-echo", "request was KMIP %s, response header says %s" % (
                request_version, version)))
    elif version not in SUPPORTED:
        bad.append(("header|version-unsupported", "response header carries version %s" % (version,)))
    items = [c for c in kids[1:]]
    if any(c[0] != T.RESPONSE_BATCH_ITEM.value for c in items):
        bad.append(("items|foreign", "non batch-item children in the message"))
    count = ttlv.find(hdr, T.BATCH_COUNT.value)[2]
    if count != len(items):
        bad.append(("header|batch-count", "batch count %d but %d batch items" % (count, len(items))))
    for i, it in enumerate(items):
        tags = [c[0] for c in it[2]]
        if tags.count(T.RESULT_STATUS.value) != 1:
            bad.append(("item|no-status", "item %d has %d result statuses" % (
                i, tags.count(T.RESULT_STATUS.value))))
            continue
        status = ttlv.find(it, T.RESULT_STATUS.value)[2]
        has_reason = T.RESULT_REASON.value in tags
        has_message = T.RESULT_MESSAGE.value in tags
        if status == enums.ResultStatus.SUCCESS.value:
            if has_reason or has_message:
                bad.append(("item|reason-on-success", "item %d: success with reason/message" % i))
        else:
            if not has_reason or not has_message:
                bad.append(("item|failure-without-%s" % ('reason' if not has_reason else 'message'),
                            "item %d: status %d with reason=%s message=%s" % (
                                i, status, has_reason, has_message)))
    return bad


def histories(version):
    """(label, request bytes, user, decodable) for one protocol version."""
    E = enums
    v = version
    MASK = [W.attr(W.AT.CRYPTOGRAPHIC_USAGE_MASK, list(W.CUM))]
    BEO = E.BatchErrorContinuationOption

    def req(items, **h):
        return W.encode_request(W.build_request(v, items if isinstance(items, list) else [items], **h))

    out = []

    def add(label, builder, user='alice', decodable=True, **h):
        try:
            out.append((label, req(builder(), **h) if callable(builder) else builder, user, decodable))
        except Exception:   # noqa   the library refuses to encode this for the version
            pass

    add('register_sym', lambda: W.p_register(W.pie_symmetric(), MASK + W.common_attrs(
        names=['a', 'b'], groups=['g'], appinfo=[('n', 'd')])))
    add('activate', lambda: W.p_activate('1'))
    add('create', lambda: W.p_create())
    add('create_key_pair', lambda: W.p_create_key_pair(**W.rsa_pair_attrs()))
    for k in ('Certificate', 'SecretData', 'OpaqueObject', 'SplitKey', 'PublicKey', 'PrivateKey'):
        add('register_' + k, (lambda k=k: W.p_register(W.KINDS[k](), MASK if k != 'OpaqueObject' else [])))
    for i in range(1, 11):
        add('get_%d' % i, (lambda i=i: W.p_get(str(i))))
        add('get_attributes_%d' % i, (lambda i=i: W.p_get_attributes(str(i))))
    add('get_attribute_list', lambda: W.p_get_attribute_list('1'))
    add('get_wrapped', lambda: W.p_get('2', wrapping_spec=W.wrapping_spec('1')))
    add('locate', lambda: W.p_locate())
    add('locate_filtered', lambda: W.p_locate([W.attr(W.AT.NAME, 'a')], 1, 0))
    add('query', lambda: W.p_query(list(E.QueryFunction)))
    add('discover', lambda: W.p_discover())
    add('encrypt', lambda: W.p_encrypt('1', iv=b'\x00' * 16))
    add('decrypt_bad_padding', lambda: W.p_decrypt('1'))
    add('mac', lambda: W.p_mac('1'))
    add('derive_key', lambda: W.p_derive_key(['1']))
    add('sign', lambda: W.p_sign('10'))
    add('signature_verify', lambda: W.p_signature_verify('9'))
    # unusual stored data coming back in responses: text of every length 6..10 (around the 8-byte
    # alignment) in ASCII and non-ASCII, several instances, empty application data, long values
    NAMES = ['abcdef', 'abcdefg', 'abcdefgh', 'abcdefghi', 'abcdefghij', 'é', 'ééé', 'éééé',
             '日本語', '\U0001F511key', 'x' * 255]
    add('register_unusual', lambda: W.p_register(W.pie_secret(b'\x00'), W.common_attrs(
        names=NAMES, groups=['g' * n for n in (1, 7, 8, 9, 16)],
        appinfo=[('ns' * n, 'd' * (9 - n)) for n in (1, 4, 8)])))
    add('get_attributes_unusual', lambda: W.p_get_attributes('11'))
    add('get_attribute_list_unusual', lambda: W.p_get_attribute_list('11'))
    add('get_unusual', lambda: W.p_get('11'))
    for nm in NAMES[:9]:
        add('locate_unusual_%d' % len(nm.encode()), (lambda nm=nm: W.p_locate([W.attr(W.AT.NAME, nm)])))
    add('locate_nothing', lambda: W.p_locate([W.attr(W.AT.NAME, 'no-such-name')]))
    add('query_nothing', lambda: W.p_query([]))
    add('get_attributes_none_present', lambda: W.p_get_attributes('11', ['Activation Date']))
    # error classes
    add('err_not_found', lambda: W.p_get('999'))
    add('err_permission', lambda: W.p_get('1'), user='bob')
    add('err_invalid_field', lambda: W.p_create(W.sym_attrs(masks=None)))
    add('err_illegal_operation', lambda: W.p_activate('7'))
    add('err_wrong_state', lambda: W.p_activate('1'))
    add('err_crypto_failure', lambda: W.p_encrypt('1', W.crypto_params(
        cryptographic_algorithm=E.CryptographicAlgorithm.AES,
        block_cipher_mode=E.BlockCipherMode.CBC), b'123', b'\x00' * 16))
    add('err_general_failure', lambda: W.p_mac('7'))
    add('err_key_format', lambda: W.p_get('1', key_format_type=E.KeyFormatType.PKCS_8))
    add('err_compression', lambda: W.p_get('1', compression=E.KeyCompressionType.EC_PUBLIC_KEY_TYPE_UNCOMPRESSED))
    add('err_not_supported_op', lambda: (E.Operation.POLL, W.payloads.PollRequestPayload()))
    add('err_index', lambda: W.p_delete_attribute_1x('1', 'Name', 7))
    # batches
    add('batch_ok', lambda: [W.p_create(), W.p_get(), W.p_locate()])
    add('batch_stop_middle', lambda: [W.p_create(), W.p_get('999'), W.p_locate()])
    add('batch_stop_first', lambda: [W.p_get('999'), W.p_create(), W.p_locate()])
    add('batch_continue', lambda: [W.p_get('999'), W.p_create(), W.p_get('998')],
        error_option=BEO.CONTINUE)
    add('batch_all_fail_continue', lambda: [W.p_get('999'), W.p_get('998')], error_option=BEO.CONTINUE)
    # request-level rejections
    add('undo', lambda: W.p_create(), error_option=BEO.UNDO)
    add('async', lambda: W.p_create(), async_indicator=True)
    add('stale', lambda: W.p_create(), time_stamp=W.T0 - 5000)
    add('future', lambda: W.p_create(), time_stamp=W.T0 + 5000)
    add('missing_batch_id', lambda: [W.p_create(), W.p_create()], batch_ids=[b'1', None])
    # oversize replacement
    add('max_size_small', lambda: W.p_get('1'), max_response_size=8)
    add('max_size_small_query', lambda: W.p_query(list(E.QueryFunction)), max_response_size=100)
    add('max_size_large', lambda: W.p_get('1'), max_response_size=100000)
    # modify/destroy at the end
    add('modify', lambda: W.p_modify_attribute_1x('1', W.AT.NAME, 'x', 0))
    add('delete_attr', lambda: W.p_delete_attribute_1x('1', 'Name', 0))
    add('revoke', lambda: W.p_revoke('1'))
    add('destroy', lambda: W.p_destroy('1'))
    # undecodable frames
    good = req(W.p_get('2'))
    body = good[8:]
    out.append(('garbage_body', good[:8] + b'\xff' * len(body), 'alice', False))
    out.append(('empty_body', good[:4] + struct.pack('!I', 0), 'alice', False))
    out.append(('wrong_inner_length', good[:8] + body[:20] + b'\x7f' + body[21:], 'alice', False))
    out.append(('unsupported_version', W.patch_version(good, (9, 9)), 'alice', False))
    out.append(('response_as_request', W.encode_request(W.build_request(v, [W.p_get('2')])).replace(
        b'\x42\x00\x78', b'\x42\x00\x7b', 1), 'alice', False))
    return out


def check_history(version, part):
    pol = W.default_policies({'open': W.OPEN_POLICY})
    W.use_rsa_pool()
    w = W.World(policies=pol)
    try:
        W.CLOCK.now = W.T0
        for label, data, user, decodable in histories(version):
            # "decodable" is decided by running the library's own decoder separately on the frame
            try:
                m = W.messages.RequestMessage()
                m.read(W.cutils.BytearrayStream(data), kmip_version=enums.KMIPVersion.KMIP_1_2)
                decodable = True
            except Exception:   # noqa
                decodable = False
            try:
                resp = w.send_bytes(data, user=user)
            except Exception as e:   # noqa
                part.violation("session-raises|%s" % label, "session raised %s for %s" % (
                    type(e).__name__, label), {'history': label, 'version': list(version)})
                continue
            part.count('responses')
            _judge(resp, version, decodable, label, part)
        # authentication-stage failures: certificates that do not establish an identity
        good = W.encode_request(W.build_request(version, [W.p_locate()]))
        for clabel, cns, eku in (('no_cn', (), 'client'), ('two_cn', ('a', 'b'), 'client'),
                                 ('no_eku', ('alice',), None), ('server_eku', ('alice',), 'server')):
            conn = W.FakeConnection(W.make_cert(cns, eku), good)
            s = W.session_mod.KmipSession(w.engine, conn, ('127.0.0.1', 1), name='c02',
                                          enable_tls_client_auth=True)
            s._handle_message_loop()
            part.count('responses')
            _judge(conn.sent[-1], version, True, 'auth_' + clabel, part, auth=True)
        conn = W.FakeConnection(None, good)
        s = W.session_mod.KmipSession(w.engine, conn, ('127.0.0.1', 1), name='c02')
        s._handle_message_loop()
        part.count('responses')
        _judge(conn.sent[-1], version, True, 'auth_no_cert', part, auth=True)
        part.sample({'version': list(version), 'history_labels': [h[0] for h in histories(version)][:12]})
    finally:
        w.close()


def check_primitives(part):
    """Primitive encodings byte-identical to the independent implementation: the boundary menus of
    C01 (sign and width boundaries incl. magnitudes whose bit length is a multiple of 64, every
    length mod 8, non-ASCII text, every member of six enumerations) under three tags x 6 versions."""
    from kmip.core import primitives
    for name, cls, v, typ in c01.primitive_cases():
        for tag in (T.DEFAULT, T.ACTIVATION_DATE, T.CUSTOM_ATTRIBUTE):
            try:
                if name.startswith('Enumeration'):
                    obj, ev = primitives.Enumeration(cls, v, tag), v.value
                else:
                    obj, ev = cls(v, tag), v
            except (TypeError, ValueError):
                continue
            exp = ttlv.encode((tag.value, typ, ev))
            for kv in c01.KV:
                try:
                    b = c01.shapes.encode(obj, kv)
                except Exception:   # noqa - C01's subject (constructs but cannot be encoded)
                    continue
                part.count('encodings')
                part.count('primitive_encodings')
                if b != exp and not (typ == ttlv.BIG_INTEGER and c01._same_bigint(b, exp)):
                    vk = c01._vclass(v) if not name.startswith('Enumeration') else 'member'
                    part.violation("primitive|%s|%s" % (name.split(':')[0], vk),
                                   "%s(%r) under tag %s: the library emits %s, the TTLV definition gives %s"
                                   % (name, v, tag.name, b.hex(), exp.hex()),
                                   {'primitive': name, 'value': repr(v)[:60]})
                    break
    part.sample({'primitive_cases': len(c01.primitive_cases())})


def check_grid(arg, versions, part):
    """The C13 request grid (every operation x object kind x state x parameter deviations, ~35k
    well-formed requests in the quick tier) re-driven with the envelope oracle: error paths of
    every operation, not only the ones the hand-made histories reach."""
    from checks import c13_no_general_failure as c13
    w0, uids, kek = c13.base()
    kind, a = arg
    if kind == 'target':
        tlabel, uid, k = a
        plist = c13.probes(uid, kek, k)
    else:
        tlabel, plist = 'no-object', c13.object_free_probes()[a[0]::a[1]]
    for label, vc, item in plist:
        for version in versions:
            if not c13._vok(vc, version):
                continue
            try:
                data = W.encode_request(W.build_request(version, [item()]))
                m = W.messages.RequestMessage()
                m.read(W.cutils.BytearrayStream(data), kmip_version=enums.KMIPVersion.KMIP_1_2)
            except Exception:   # noqa - not expressible / not well-formed for this version
                continue
            w = w0.clone()
            try:
                W.CLOCK.now = W.T0 + 50
                try:
                    resp = w.send_bytes(data, user='alice')
                except Exception as e:   # noqa
                    part.violation("session-raises|grid|%s" % label.split('|')[0],
                                   "session raised %s for %s on %s" % (type(e).__name__, label, tlabel),
                                   {'grid': [kind, list(a)], 'probe': label, 'version': list(version)})
                    continue
            finally:
                w.close()
            part.count('responses')
            part.count('grid_responses')
            probs = envelope_problems(resp, tuple(version), True)
            part.counters.setdefault('_out', set()).add(('grid:' + label.split('|')[0], not probs))
            for key, what in tag_version_problems(resp, version):
                part.violation("%s|grid:%s" % (key, label.split('|')[0]),
                               "response to '%s' on %s under KMIP %d.%d %s" % (
                                   label, tlabel, version[0], version[1], what),
                               {'grid': [kind, list(a)], 'probe': label, 'version': list(version)})
            for key, what in probs:
                part.violation("envelope|%s|grid:%s" % (key, label.split('|')[0]),
                               "response to '%s' on %s under KMIP %d.%d: %s" % (
                                   label, tlabel, version[0], version[1], what),
                               {'grid': [kind, list(a)], 'probe': label, 'version': list(version)})
    part.sample({'grid_target': tlabel, 'probes': len(plist)})


def tag_version_problems(resp, version):
    """(key, what) for every item of the response whose tag the response's KMIP version does not
    define (tag ranges per version and the retired tags: mc/ref/versions.py)."""
    from mc.ref import versions as V
    try:
        tree = ttlv.parse(bytes(resp), strict=False)
    except ttlv.TTLVError:
        return []       # reported by the envelope oracle
    out = []
    for t in sorted(set(node[0] for path, node in ttlv.walk(tree))):
        first, last = V.tag_first(t), V.TAG_LAST.get(t)
        if (first and tuple(version) < first) or (last and tuple(version) > last):
            early = bool(first and tuple(version) < first)
            out.append(("tag-not-in-version|%06x" % t,
                        "carries tag %06x (%s), defined %s KMIP %d.%d" % (
                            t, V.tagname(t), 'from' if early else 'until', *(first if early else last))))
    return out


def _judge(resp, version, decodable, label, part, auth=False):
    # certificate-stage failures are answered before the request is parsed: only a supported version
    # is demanded there (DESIGN 4/C02)
    probs = envelope_problems(resp, tuple(version), decodable and not (
        auth and label in ('auth_no_eku', 'auth_server_eku', 'auth_no_cert')))
    part.counters.setdefault('_out', set()).add((label, not probs))
    for key, what in probs:
        part.violation("envelope|%s|%s" % (key, _lclass(label)),
                       "response to '%s' under KMIP %d.%d: %s" % (label, version[0], version[1], what),
                       {'history': label, 'version': list(version)})
    if decodable and not auth:
        for key, what in tag_version_problems(resp, version):
            part.violation("%s|%s" % (key, _lclass(label)),
                           "response to '%s' under KMIP %d.%d %s" % (label, version[0], version[1], what),
                           {'history': label, 'version': list(version)})


def _lclass(label):
    return label.rstrip('0123456789').rstrip('_')


def _worker(task):
    kind, arg = task
    part = Part()
    import logging
    logging.disable(logging.CRITICAL)
    try:
        if kind == 'classes':
            for name in arg:
                check_class_bytes(name, part)
            part.sample({'classes': arg[:5]})
        elif kind == 'grid':
            check_grid(arg[0], arg[1], part)
        elif kind == 'primitives':
            check_primitives(part)
        else:
            check_history(arg, part)
    finally:
        logging.disable(logging.NOTSET)
    out = part.as_dict()
    out['out'] = sorted(part.counters.pop('_out', set()))
    return out


def run(tier, seed):
    rep = Reporter('C02', 'exploration', tier, seed)
    names = c01.structure_names()
    n = 20
    tasks = [('classes', names[i::n]) for i in range(n)] + [('history', v) for v in W.VERSIONS]
    tasks.append(('primitives', None))
    from checks import c13_no_general_failure as c13
    targets, kek = c13.grid(tier)
    vq = [(1, 0), (1, 2), (1, 4), (2, 0)]
    for t in targets:
        vs = W.VERSIONS if tier == 'thorough' else (vq if t[0] in (
            'SymmetricKey/act', 'PrivateKey/act', 'PublicKey/act') else [(1, 4), (2, 0)])
        tasks.append(('grid', (('target', t), vs)))
    for i in range(8):
        tasks.append(('grid', (('free', (i, 8)), W.VERSIONS if tier == 'thorough' else vq)))
    outs = set()
    for part in pmap(_worker, tasks):
        outs.update(tuple(o) for o in part.pop('out', []))
        rep.merge(part)
    enc = rep.counters.get('encodings', 0)
    resp = rep.counters.get('responses', 0)
    if enc < 10000 or resp < 300:
        rep.harness_error("vacuous: %d encodings, %d responses" % (enc, resp))
    return rep.finish(dict(
        evaluations=enc + resp, distinct_nontrivial=len(outs),
        rule="a case is one emitted byte string: (i) each successful encoding of the C01 value "
             "universe (presence lattice + single-field sweeps per class x 6 versions), (ii) each "
             "response of a real session+engine to a ~85-request history per version covering every "
             "operation, every error class, request-level rejections, undecodable frames, "
             "certificate/identity failures and oversize replacement, (i') every primitive of C01's "
             "boundary menus under three tags, byte-compared with the independent encoder, (iii) each response to the C13 "
             "request grid (operation x object kind x state x parameter deviations; grid_responses). "
             "distinct_nontrivial = distinct "
             "(class or history label, verdict) pairs",
        codec_encodings=enc, server_responses=resp, versions=len(W.VERSIONS), exhaustive=False,
        grid_responses=rep.counters.get('grid_responses', 0),
    ), assumptions=[
        "the independent parser (mc/ref/ttlv.py) is the reading of the KMIP TTLV definition used as "
        "the oracle; BigInteger length minimality is not demanded",
        "for undecodable frames and certificate-stage failures only a supported version is demanded "
        "in the response header",
    ])


def replay(doc):
    part = Part()
    import logging
    logging.disable(logging.CRITICAL)
    try:
        if 'class' in doc:
            check_class_bytes(doc['class'], part)
        elif 'primitive' in doc:
            check_primitives(part)
        elif 'grid' in doc:
            g = doc['grid']
            arg = (g[0], tuple(g[1]))
            check_grid(arg, [tuple(doc['version'])], part)
            part.violations[:] = [v for v in part.violations if v[2].get('probe') == doc['probe']]
        else:
            check_history(tuple(doc['version']), part)
    finally:
        logging.disable(logging.NOTSET)
    v = part.violations
    return bool(v), '\n'.join("%s: %s" % (k, t) for k, t, _ in v[:20]) or 'no violation'
