"""C16 - protocol version is honoured: echo, refusal, and feature gating.

Complete matrices on the real session+engine: request version (supported and unsupported) x every
operation x object present/absent; attribute x version (reported and supplied); version-conditional
fields x version in both directions; DiscoverVersions over every subset of a version menu;
Query(operations) under every version, in both version orders on one long-lived engine, followed by
one minimal request per advertised operation. Oracle: a version table written from the KMIP
1.0-2.0 specifications (mc/ref/versions.py).
"""
import itertools

from mc import world as W
from mc.world import enums
from mc.ref import ttlv, versions as V
from mc.report import Reporter, Part
from mc.par import pmap

E = enums
RR = E.ResultReason
T = E.Tags
OPN = E.Operation
W.use_rsa_pool()

UNSUPPORTED = [(0, 0), (0, 9), (1, 5), (1, 9), (2, 1), (3, 0), (1, 2 ** 31 - 1), (9, 9)]
MASK = lambda: [W.attr(W.AT.CRYPTOGRAPHIC_USAGE_MASK, list(W.CUM))]   # noqa: E731


def base_store():
    W.CLOCK.now = W.T0
    w = W.World()
    w.do((1, 4), W.p_register(W.pie_symmetric(), MASK() + W.common_attrs(
        names=['k'], groups=['g'], appinfo=[('ns', 'd')], sensitive=True)))              # 1
    w.do((1, 4), W.p_activate('1'))
    w.do((1, 4), W.p_register(W.pie_private(), MASK()))                                   # 2
    w.do((1, 4), W.p_activate('2'))
    w.do((1, 4), W.p_register(W.pie_public(), MASK()))                                    # 3
    w.do((1, 4), W.p_activate('3'))
    w.do((1, 4), W.p_register(W.pie_certificate(), W.common_attrs(names=['c'])))           # 4
    w.do((1, 4), W.p_register(W.pie_secret(), MASK()))                                    # 5
    return w


_BASE = None


def base():
    global _BASE
    if _BASE is None:
        _BASE = base_store()
    return _BASE


def minimal_requests():
    """operation -> (builder, version used to ENCODE the body when the library refuses the real one)."""
    return {
        OPN.CREATE: lambda: W.p_create(),
        OPN.CREATE_KEY_PAIR: lambda: W.p_create_key_pair(**W.rsa_pair_attrs()),
        OPN.REGISTER: lambda: W.p_register(W.pie_secret()),
        OPN.DERIVE_KEY: lambda: W.p_derive_key(['1']),
        OPN.LOCATE: lambda: W.p_locate(),
        OPN.GET: lambda: W.p_get('1'),
        OPN.GET_ATTRIBUTES: lambda: W.p_get_attributes('1'),
        OPN.GET_ATTRIBUTE_LIST: lambda: W.p_get_attribute_list('1'),
        OPN.ACTIVATE: lambda: W.p_activate('5'),
        OPN.REVOKE: lambda: W.p_revoke('1'),
        OPN.DESTROY: lambda: W.p_destroy('5'),
        OPN.QUERY: lambda: W.p_query(),
        OPN.DISCOVER_VERSIONS: lambda: W.p_discover(),
        OPN.ENCRYPT: lambda: W.p_encrypt('1', iv=b'\x00' * 16),
        OPN.DECRYPT: lambda: W.p_decrypt('1'),
        OPN.SIGN: lambda: W.p_sign('2'),
        OPN.SIGNATURE_VERIFY: lambda: W.p_signature_verify('3'),
        OPN.MAC: lambda: W.p_mac('1'),
        OPN.MODIFY_ATTRIBUTE: lambda: W.p_modify_attribute_1x('1', W.AT.NAME, 'r', 0),
        OPN.DELETE_ATTRIBUTE: lambda: W.p_delete_attribute_1x('1', 'Name', 0),
        OPN.SET_ATTRIBUTE: lambda: W.p_set_attribute('5', W.AT.SENSITIVE, True),
    }


MIN20 = {
    OPN.MODIFY_ATTRIBUTE: lambda: W.p_modify_attribute_20('5', W.AT.SENSITIVE, True),
    OPN.DELETE_ATTRIBUTE: lambda: W.p_delete_attribute_20('1', W.AT.NAME),
}


def send(w, version, item, encode_as=None, user='alice'):
    """Returns (Resp or None if the request cannot be expressed, raw bytes)."""
    try:
        msg = W.build_request(version, [item] if isinstance(item, tuple) else item)
        data = W.encode_request(msg, encode_as)
    except Exception:   # noqa
        return None
    return W.Resp(w.send_bytes(data, user=user))


def op_matrix(part):
    """version x operation: echo + gating."""
    reqs = minimal_requests()
    for version in W.VERSIONS:
        for op, build in reqs.items():
            b = MIN20.get(op, build) if version == (2, 0) else build
            first = V.OPERATION_FIRST[op.name]
            w = base().clone()
            try:
                W.CLOCK.now = W.T0 + 9
                before = w.raw_key()
                r = send(w, version, b())
                foreign = False
                if r is None:
                    # the library will not encode it under this version: a foreign client could
                    r = send(w, version, b(), encode_as=(2, 0) if first == (2, 0) else (1, 4))
                    foreign = True
                if r is None:
                    part.count('unencodable')
                    continue
                part.count('requests')
                ctx = {'matrix': 'operation', 'version': list(version), 'operation': op.name}
                it = r.items[0]
                part.counters.setdefault('_out', set()).add(('op', op.name, version, it.ok()))
                if r.version != version and it.reason != RR.INVALID_MESSAGE.value:
                    part.violation("echo|%s" % op.name, "%s under KMIP %s answered in version %s" % (
                        op.name, version, r.version), ctx)
                if version < first:
                    if it.ok():
                        part.violation("operation-accepted-early|%s" % op.name,
                                       "%s (introduced in KMIP %d.%d) succeeded under KMIP %d.%d%s" % (
                                           op.name, first[0], first[1], version[0], version[1],
                                           ' (foreign encoding)' if foreign else ''), ctx)
                    elif w.raw_key() != before:
                        part.violation("refused-but-changed|%s" % op.name, "store changed", ctx)
                    # the engine's own gate (its API takes request objects; the decoder may already
                    # have refused the encoding above)
                    r3 = w.engine_direct(W.build_request(version, [b()]), ('alice', None))
                    part.count('requests')
                    if r3.items[0].ok():
                        part.violation("operation-accepted-early-by-engine|%s" % op.name,
                                       "the engine served %s (KMIP %d.%d) under KMIP %d.%d" % (
                                           op.name, first[0], first[1], version[0], version[1]), ctx)
                else:
                    if not it.ok() and it.reason == RR.OPERATION_NOT_SUPPORTED.value and not foreign:
                        part.violation("operation-refused-late|%s" % op.name,
                                       "%s (KMIP %d.%d) is refused as unsupported under KMIP %d.%d: %s" % (
                                           op.name, first[0], first[1], version[0], version[1], r.brief()), ctx)
            finally:
                w.close()
    part.sample({'matrix': 'version x operation', 'operations': [o.name for o in reqs][:8]})


def unsupported_versions(part):
    reqs = minimal_requests()
    for version in UNSUPPORTED:
        for op in (OPN.CREATE, OPN.GET, OPN.DESTROY, OPN.QUERY, OPN.DISCOVER_VERSIONS, OPN.LOCATE):
            for enc in ((1, 0), (1, 4), (2, 0)):
                w = base().clone()
                try:
                    before = w.raw_key()
                    r = send(w, version, reqs[op](), encode_as=enc)
                    if r is None:
                        continue
                    part.count('requests')
                    ctx = {'matrix': 'unsupported', 'version': list(version), 'operation': op.name}
                    it = r.items[0]
                    part.counters.setdefault('_out', set()).add(('unsup', version, it.ok()))
                    if it.ok():
                        part.violation("unsupported-version-served|%d.%d" % version,
                                       "%s under unsupported KMIP %s was served: %s" % (op.name, version, r.brief()), ctx)
                    if w.raw_key() != before:
                        part.violation("unsupported-version-changed-store", "store changed under %s" % (version,), ctx)
                    if r.version not in W.VERSIONS:
                        part.violation("unsupported-version-echoed", "refusal is stamped %s" % (r.version,), ctx)
                    # engine seam: the engine's own header handling (the decoder never lets these through)
                    # ... three times in a row on the same engine: a refusal must not make the next
                    # request of the same version acceptable
                    for attempt in (1, 2, 3):
                        msg = W.build_request(version, [reqs[op]()])
                        r2 = w.engine_direct(msg, ('alice', None))
                        part.count('requests')
                        if r2.items[0].ok() or w.raw_key() != before:
                            part.violation("unsupported-version-served-by-engine|%d.%d" % version,
                                           "engine served %s under KMIP %s (attempt %d in a row)" % (
                                               op.name, version, attempt), ctx)
                            break

                finally:
                    w.close()


def attribute_names(item_payload):
    out = []
    for a in ttlv.find_all(item_payload, T.ATTRIBUTE.value):
        out.append(ttlv.find(a, T.ATTRIBUTE_NAME.value)[2])
    for a in ttlv.find_all(item_payload, T.ATTRIBUTE_NAME.value):
        out.append(a[2])
    for a in ttlv.find_all(item_payload, T.ATTRIBUTES.value):
        for c in a[2]:
            out.append(V.TAG_TO_ATTRIBUTE.get(c[0], 'tag:%06x' % c[0]))
    for a in ttlv.find_all(item_payload, T.ATTRIBUTE_REFERENCE.value):
        if a[1] == ttlv.ENUMERATION:     # KMIP 2.0: the attribute's tag as an enumeration
            out.append(V.TAG_TO_ATTRIBUTE.get(a[2], 'tag:%06x' % a[2]))
            continue
        n = ttlv.find(a, T.ATTRIBUTE_NAME.value)
        if n:
            out.append(n[2])
    return out


def attribute_matrix(part):
    """Reported: GetAttributeList / GetAttributes on fully populated objects under every version.
    Supplied: Register / Create / Locate supplying each version-sensitive attribute."""
    for version in W.VERSIONS:
        w = base().clone()
        try:
            for uid in ('1', '2', '4', '5'):
                for nm, item in (('GetAttributeList', W.p_get_attribute_list(uid)),
                                 ('GetAttributes', W.p_get_attributes(uid))):
                    r = send(w, version, item)
                    part.count('requests')
                    if r is None or not r.items[0].ok():
                        part.violation("attribute-report-fails|%s" % nm, "%s(%s) under %s: %s" % (
                            nm, uid, version, r.brief() if r else 'unencodable'),
                            {'matrix': 'attributes', 'version': list(version)})
                        continue
                    names = attribute_names(r.items[0].payload)
                    part.counters.setdefault('_out', set()).add(('attrs', version, tuple(sorted(set(names)))))
                    for n in names:
                        st = V.attribute_status(n, version)
                        if st == 'undefined':
                            part.violation("attribute-reported-outside-its-versions|%s" % n,
                                           "%s reports '%s' under KMIP %d.%d (defined %s)" % (
                                               nm, n, version[0], version[1], V.ATTRIBUTES.get(n)),
                                           {'matrix': 'attributes', 'version': list(version), 'uid': uid})
                    for n in V.MUST_REPORT.get(uid, []):
                        if V.attribute_status(n, version) == 'defined' and n not in names:
                            part.violation("attribute-missing|%s" % n,
                                           "%s omits '%s' under KMIP %d.%d" % (nm, n, version[0], version[1]),
                                           {'matrix': 'attributes', 'version': list(version), 'uid': uid})
        finally:
            w.close()
        # supplying a later attribute under an earlier version
        for aname, (added, removed) in V.ATTRIBUTES.items():
            val = V.SAMPLE_VALUES.get(aname)
            if val is None:
                continue
            at = W.AT(aname)
            # Locate in every situation in which the filter might never be looked at: nothing visible
            # to the requester (empty store, a requester owning nothing), an earlier filter that
            # already excludes everything, the attribute first / last among the filters
            nope = W.attr(W.AT.NAME, 'no-such-name')
            state = W.attr(W.AT.STATE, E.State.DESTROYED)
            for opname, build, store, user in (
                    ('Register', lambda: W.p_register(W.pie_secret(), [W.attr(at, val)]), 'base', 'alice'),
                    ('Create', lambda: W.p_create(W.sym_attrs(extra=[W.attr(at, val)])), 'base', 'alice'),
                    ('Locate', lambda: W.p_locate([W.attr(at, val)]), 'base', 'alice'),
                    ('Locate/empty-store', lambda: W.p_locate([W.attr(at, val)]), 'empty', 'alice'),
                    ('Locate/stranger', lambda: W.p_locate([W.attr(at, val)]), 'base', 'zed'),
                    ('Locate/after-excluding-name', lambda: W.p_locate([nope, W.attr(at, val)]), 'base', 'alice'),
                    ('Locate/after-excluding-state', lambda: W.p_locate([state, W.attr(at, val)]), 'base', 'alice'),
                    ('Locate/before-excluding-name', lambda: W.p_locate([W.attr(at, val), nope]), 'base', 'alice')):
                w = base().clone() if store == 'base' else W.World()
                try:
                    before = w.raw_key()
                    r = send(w, version, build(), user=user)
                    foreign = False
                    if r is None and version < added:
                        r = send(w, version, build(), encode_as=added, user=user)
                        foreign = True
                    if r is None:
                        continue
                    part.count('requests')
                    it = r.items[0]
                    part.counters.setdefault('_out', set()).add(('supply', aname, opname, version, it.ok()))
                    if V.attribute_status(aname, version) == 'undefined' and it.ok():
                        part.violation("attribute-accepted-outside-its-versions|%s|%s" % (aname, opname),
                                       "%s supplying '%s' (KMIP %s..%s) succeeded under KMIP %d.%d%s" % (
                                           opname, aname, added, removed, version[0], version[1],
                                           ' (foreign encoding)' if foreign else ''),
                                       {'matrix': 'supply', 'version': list(version), 'attribute': aname,
                                        'operation': opname})
                finally:
                    w.close()
    part.sample({'matrix': 'attribute x version', 'attributes': sorted(V.ATTRIBUTES)[:8]})


def field_matrix(part):
    """Version-conditional message fields, both directions."""
    # server -> client: tags that may appear in responses only from a given version on
    for version in W.VERSIONS:
        w = base().clone()
        try:
            for label, item in (('create', W.p_create()), ('get', W.p_get('1')),
                                ('get_attributes', W.p_get_attributes('1')), ('query', W.p_query(list(E.QueryFunction))),
                                ('locate', W.p_locate()), ('register', W.p_register(W.pie_secret())),
                                ('get_missing', W.p_get('999'))):
                r = send(w, version, item)
                if r is None:
                    continue
                part.count('requests')
                for path, node in ttlv.walk(r.tree):
                    first = V.tag_first(node[0])
                    last = V.TAG_LAST.get(node[0])
                    if first and version < first:
                        part.violation("field-sent-early|%06x" % node[0],
                                       "response to %s under KMIP %d.%d carries tag %s (from KMIP %d.%d)" % (
                                           label, version[0], version[1], V.tagname(node[0]), first[0], first[1]),
                                       {'matrix': 'fields', 'version': list(version), 'request': label})
                    if last and version > last:
                        part.violation("field-sent-late|%06x" % node[0],
                                       "response to %s under KMIP %d.%d carries tag %s (until KMIP %d.%d)" % (
                                           label, version[0], version[1], V.tagname(node[0]), last[0], last[1]),
                                       {'matrix': 'fields', 'version': list(version), 'request': label})
        finally:
            w.close()
    # client -> server: a KMIP 2.0-only request field under an earlier version (foreign encoding)
    from kmip.core import objects as cobjects
    psm = cobjects.ProtectionStorageMasks(protection_storage_masks=[1])
    cases = {
        'create+protection_storage_masks': (OPN.CREATE, W.payloads.CreateRequestPayload(
            E.ObjectType.SYMMETRIC_KEY, W.template(W.sym_attrs()), protection_storage_masks=psm)),
        'register+protection_storage_masks': (OPN.REGISTER, W.payloads.RegisterRequestPayload(
            object_type=E.ObjectType.SECRET_DATA, template_attribute=W.template([]),
            managed_object=W.OBJ_FACTORY.convert(W.pie_secret()), protection_storage_masks=psm)),
    }
    for label, item in cases.items():
        for version in W.VERSIONS[:-1]:
            w = base().clone()
            try:
                before = w.raw_key()
                r = send(w, version, item, encode_as=(2, 0))
                if r is None:
                    continue
                part.count('requests')
                part.counters.setdefault('_out', set()).add(('field-in', label, version, r.items[0].ok()))
                if r.items[0].ok():
                    part.violation("field-accepted-early|%s" % label,
                                   "%s (KMIP 2.0 encoding) succeeded under KMIP %d.%d" % (label, version[0], version[1]),
                                   {'matrix': 'fields-in', 'version': list(version), 'case': label})
                if w.raw_key() != before and not r.items[0].ok():
                    part.violation("field-refused-but-changed|%s" % label, "store changed", {})
            finally:
                w.close()
    part.sample({'matrix': 'version-conditional fields', 'cases': list(cases)})


def _tags_of(tree):
    return set(node[0] for path, node in ttlv.walk(tree))


def grid_fields(part, arg, versions):
    """The C13 request grid (operation x object kind x state x parameter deviations) under every
    version, both directions. server -> client: no response may carry a tag the request's version
    does not define. client -> server: the same request in the encoding of a LATER version but
    announcing the earlier one (a foreign client library) - if its bytes carry a tag the announced
    version does not define, the server must refuse it and change nothing."""
    from checks import c13_no_general_failure as c13
    w0, uids, kek = c13.base()
    kind, a = arg
    if kind == 'target':
        tlabel, uid, k = a
        plist = c13.probes(uid, kek, k)
    else:
        tlabel, plist = 'no-object', c13.object_free_probes()[a[0]::a[1]]
    ctxb = {'matrix': 'grid', 'grid': [kind, list(a)]}
    for label, vc, item in plist:
        opl = label.split('|')[0]
        for version in versions:
            if not c13._vok(vc, version):
                continue
            # -- own encoding: what comes back
            try:
                data = W.encode_request(W.build_request(version, [item()]))
                m = W.messages.RequestMessage()     # well-formed = the library's decoder accepts it
                m.read(W.cutils.BytearrayStream(data), kmip_version=E.KMIPVersion.KMIP_1_2)
            except Exception:   # noqa
                data = None
            if data is not None:
                w = w0.clone()
                try:
                    W.CLOCK.now = W.T0 + 50
                    r = W.Resp(w.send_bytes(data, user='alice'))
                finally:
                    w.close()
                part.count('requests')
                part.count('grid_requests')
                part.counters.setdefault('_out', set()).add(('grid', opl, version, r.items[0].ok()))
                if r.version != tuple(version):
                    part.violation("grid|version-echo|%s" % opl,
                                   "%s on %s under KMIP %d.%d answered in KMIP %s" % (
                                       label, tlabel, version[0], version[1], r.version),
                                   dict(ctxb, probe=label, version=list(version)))
                for t in sorted(_tags_of(r.tree)):
                    first = V.tag_first(t)
                    last = V.TAG_LAST.get(t)
                    if (first and version < first) or (last and version > last):
                        part.violation("field-sent-%s|%06x|%s" % ('early' if first and version < first
                                                                  else 'late', t, opl),
                                       "response to %s on %s under KMIP %d.%d carries tag %06x (%s), "
                                       "defined %s KMIP %d.%d" % (
                                           label, tlabel, version[0], version[1], t, V.tagname(t),
                                           'from' if first and version < first else 'until',
                                           *(first if first and version < first else last)),
                                       dict(ctxb, probe=label, version=list(version)))
            # -- foreign encoding: a later version's bytes under this version's header
            if version == (2, 0) or vc == '20':
                continue
            for enc in ((1, 4),):
                if enc <= version:
                    continue
                try:
                    fdata = W.encode_request(W.build_request(version, [item()]), enc)
                except Exception:   # noqa
                    continue
                newer = sorted(t for t in _tags_of(ttlv.parse(fdata))
                               if V.tag_first(t) and V.tag_first(t) > version)
                if not newer:
                    continue
                w = w0.clone()
                try:
                    W.CLOCK.now = W.T0 + 50
                    before = w.raw_key()
                    r = W.Resp(w.send_bytes(fdata, user='alice'))
                    after = w.raw_key()
                finally:
                    w.close()
                part.count('requests')
                part.count('grid_foreign_requests')
                ok = bool(r.items) and r.items[0].ok()
                part.counters.setdefault('_out', set()).add(('grid-in', opl, version, ok))
                for t in (newer if ok else ()):
                    part.violation("field-accepted-early|%s|%06x" % (opl, t),
                                   "%s on %s announced as KMIP %d.%d but carrying tag %06x (%s, defined "
                                   "from KMIP %d.%d) succeeded" % (
                                       label, tlabel, version[0], version[1], t, V.tagname(t),
                                       *V.tag_first(t)),
                                   dict(ctxb, probe=label, version=list(version), foreign=list(enc)))
                if not ok and before != after:
                    part.violation("field-refused-but-changed|%s" % opl,
                                   "%s on %s (KMIP %d.%d header, later fields) was refused but the store "
                                   "changed" % (label, tlabel, version[0], version[1]),
                                   dict(ctxb, probe=label, version=list(version), foreign=list(enc)))
    part.sample({'matrix': 'grid fields', 'target': tlabel, 'probes': len(plist)})


def discover_and_query(part):
    # (1, 10), (1, 40), (2, 00): versions that merely LOOK like supported ones when read as decimals
    menu = [(1, 0), (1, 2), (2, 0), (1, 4), (9, 9), (1, 5), (0, 9), (1, 10), (1, 40), (20, 0)]
    for version in W.VERSIONS[1:]:
        w = base().clone()
        try:
            for k in range(0, len(menu) + 1):
                for sub in itertools.combinations(menu, k):
                    for order in ((sub, sub[::-1]) if 1 < k <= 3 else (sub,)):
                        r = send(w, version, W.p_discover(list(order)))
                        part.count('requests')
                        if r is None or not r.items[0].ok():
                            part.violation("discover-fails", "DiscoverVersions(%s) under %s: %s" % (
                                order, version, r.brief() if r else None), {'matrix': 'discover'})
                            continue
                        got = []
                        for pv in ttlv.find_all(r.items[0].payload, T.PROTOCOL_VERSION.value):
                            got.append((ttlv.find(pv, T.PROTOCOL_VERSION_MAJOR.value)[2],
                                        ttlv.find(pv, T.PROTOCOL_VERSION_MINOR.value)[2]))
                        part.counters.setdefault('_out', set()).add(('discover', tuple(got)))
                        ctx = {'matrix': 'discover', 'version': list(version), 'asked': [list(x) for x in order]}
                        bad = [g for g in got if g not in W.VERSIONS]
                        if bad:
                            part.violation("discover-lists-unaccepted", "lists %s" % bad, ctx)
                        if any(got[i] <= got[i + 1] for i in range(len(got) - 1)):
                            part.violation("discover-order", "DiscoverVersions(%s) answered %s: not newest first" % (
                                list(order), got), ctx)
                        if order and set(got) != set(order) & set(W.VERSIONS):
                            part.violation("discover-set", "asked %s, got %s" % (list(order), got), ctx)
                        if not order and set(got) != set(W.VERSIONS):
                            part.violation("discover-set", "asked all, got %s" % got, ctx)
        finally:
            w.close()
    # Query under each version on ONE long-lived engine, in both version orders
    reqs = minimal_requests()
    w = base().clone()
    try:
        for pass_, vs in (('descending', W.VERSIONS[::-1]), ('ascending', W.VERSIONS), ('zigzag', [
                (2, 0), (1, 0), (1, 2), (1, 1), (1, 4), (1, 0)])):
            for version in vs:
                r = send(w, version, W.p_query([E.QueryFunction.QUERY_OPERATIONS]))
                part.count('requests')
                ops = [c[2] for c in ttlv.find_all(r.items[0].payload, T.OPERATION.value)] if r.items[0].payload else []
                part.counters.setdefault('_out', set()).add(('query', version, tuple(ops)))
                ctx = {'matrix': 'query', 'version': list(version), 'pass': pass_}
                if len(ops) != len(set(ops)):
                    part.violation("query-duplicates", "Query under %s lists duplicates: %s" % (version, ops), ctx)
                for o in ops:
                    op = OPN(o)
                    first = V.OPERATION_FIRST.get(op.name)
                    if first and version < first:
                        part.violation("query-advertises-early|%s" % op.name,
                                       "Query under KMIP %d.%d (%s pass) advertises %s (KMIP %d.%d)" % (
                                           version[0], version[1], pass_, op.name, first[0], first[1]), ctx)
                    build = MIN20.get(op, reqs.get(op)) if version == (2, 0) else reqs.get(op)
                    if build is None:
                        continue
                    c = w.clone()
                    try:
                        rr = send(c, version, build())
                        part.count('requests')
                        if rr is not None and not rr.items[0].ok() and \
                                rr.items[0].reason == RR.OPERATION_NOT_SUPPORTED.value:
                            part.violation("query-advertises-unavailable|%s" % op.name,
                                           "Query under KMIP %d.%d advertises %s but the server answers %s" % (
                                               version[0], version[1], op.name, rr.brief()), ctx)
                    finally:
                        c.close()
    finally:
        w.close()
    part.sample({'matrix': 'discover subsets / query orders', 'menu': [list(m) for m in menu]})

def after_refusal(part):
    """Version state across requests on ONE engine: an accepted request under version A, then a request
    under version B that the header checks refuse (asynchronous indicator, Undo, stale time stamp), then
    version-sensitive requests under B. Their answers must be those of a fresh engine on the same
    store - the version that gates a request is the one it announces, whatever came before."""
    BEO = E.BatchErrorContinuationOption
    refusals = [('async', {'async_indicator': True}), ('undo', {'error_option': BEO.UNDO}),
                ('stale', {'time_stamp': W.T0 - 10000}), ('none', None)]
    probes = [('attr_list', lambda: W.p_get_attribute_list('1')),
              ('get_attributes', lambda: W.p_get_attributes('1')),
              ('create_sensitive', lambda: W.p_create(W.sym_attrs(sensitive=True))),
              ('create_policy', lambda: W.p_create(W.sym_attrs(policy='default'))),
              ('query', lambda: W.p_query([E.QueryFunction.QUERY_OPERATIONS])),
              ('discover', lambda: W.p_discover())]
    fresh = {}
    for vb in W.VERSIONS:
        for pname, pb in probes:
            c = base().clone()
            try:
                W.CLOCK.now = W.T0 + 9
                r = send(c, vb, pb())
                fresh[(vb, pname)] = None if r is None else r.key()
            finally:
                c.close()
    for va in W.VERSIONS:
        for vb in W.VERSIONS:
            if va == vb:
                continue
            for rname, hdr in refusals:
                w = base().clone()
                try:
                    W.CLOCK.now = W.T0 + 7
                    send(w, va, W.p_query([E.QueryFunction.QUERY_OPERATIONS]))
                    if hdr is not None:
                        W.CLOCK.now = W.T0 + 8
                        try:
                            rr = W.Resp(w.send_bytes(W.encode_request(W.build_request(vb, [W.p_locate()], **hdr)),
                                                     user='alice'))
                            if rr.items[0].ok():
                                part.count('refusal_not_refused')
                        except Exception:   # noqa
                            pass
                    for pname, pb in probes:
                        if fresh[(vb, pname)] is None:
                            continue
                        c = w.clone() if pname.startswith('create') else w
                        try:
                            W.CLOCK.now = W.T0 + 9
                            r = send(c, vb, pb())
                        finally:
                            if c is not w:
                                c.close()
                        part.count('requests')
                        part.count('after_refusal_requests')
                        same = r is not None and r.key() == fresh[(vb, pname)]
                        part.counters.setdefault('_out', set()).add(('after-refusal', vb, pname, same))
                        if not same:
                            part.violation("version-state|%s|after-%s" % (pname, rname),
                                           "%s under KMIP %d.%d after a request under %d.%d%s is answered %s, "
                                           "not as on a fresh engine" % (
                                               pname, vb[0], vb[1], va[0], va[1],
                                               '' if hdr is None else " and a %d.%d request refused for '%s'" % (
                                                   vb[0], vb[1], rname), r.brief() if r else None),
                                           {'matrix': 'after_refusal', 'a': list(va), 'b': list(vb),
                                            'refusal': rname, 'probe': pname})
                finally:
                    w.close()
    part.sample({'matrix': 'after_refusal', 'refusals': [r[0] for r in refusals],
                 'probes': [p[0] for p in probes]})


PARTS = {'ops': op_matrix, 'unsupported': unsupported_versions, 'attributes': attribute_matrix,
         'fields': field_matrix, 'discover': discover_and_query, 'after_refusal': after_refusal}


def _worker(task):
    part = Part()
    if isinstance(task, tuple):
        grid_fields(part, task[1], task[2])
    else:
        PARTS[task](part)
    out = part.as_dict()
    out['out'] = len(part.counters.pop('_out', set()))
    return out


def run(tier, seed):
    rep = Reporter('C16', 'exploration', tier, seed)
    distinct = 0
    from checks import c13_no_general_failure as c13
    targets, kek = c13.grid(tier)
    tasks = list(PARTS)
    for t in targets:
        vs = W.VERSIONS if (tier == 'thorough' or t[0] in (
            'SymmetricKey/act', 'PrivateKey/act', 'PublicKey/act', 'missing')) else [(1, 0), (1, 2), (2, 0)]
        tasks.append(('grid', ('target', t), vs))
    for i in range(8):
        tasks.append(('grid', ('free', (i, 8)), W.VERSIONS))
    for part in pmap(_worker, tasks):
        distinct += part.pop('out', 0)
        rep.merge(part)
    n = rep.counters.get('requests', 0)
    if n < 1500 or distinct < 200:
        rep.harness_error("vacuous: %d requests, %d outcomes" % (n, distinct))
    return rep.finish(dict(
        evaluations=n, distinct_nontrivial=distinct,
        rule="complete matrices: 6 supported versions x 21 operations (own and foreign encoding); 8 "
             "unsupported versions x 6 operations x 3 body encodings at the session seam and at the "
             "engine seam; GetAttributeList/GetAttributes of 4 populated objects x 6 versions and "
             "Register/Create/Locate supplying each version-sensitive attribute x 6 versions; every "
             "response tag against the tag/version table; KMIP 2.0-only request fields under earlier "
             "versions; DiscoverVersions with every subset of a 7-version menu (orders for k <= 3) x 5 "
             "versions; 30 ordered version pairs (A, B) x {no, 3 kinds of} header-refused request under B after an "
             "accepted one under A, then 6 version-sensitive requests under B compared with a fresh engine; "
             "Query(operations) x 6 versions in descending, ascending and zigzag order on one "
             "engine followed by one minimal request per advertised operation; the C13 request grid "
             "under the supported versions: every tag of every response against the tag-range/version "
             "rule, and every request re-sent in the KMIP 1.4 encoding under an earlier header when "
             "that encoding carries a tag the header's version does not define (must be refused). "
             "distinct_nontrivial = "
             "distinct (matrix cell, outcome) pairs",
        unencodable_requests=rep.counters.get('unencodable', 0), exhaustive=True,
        grid_requests=rep.counters.get('grid_requests', 0),
        grid_foreign_requests=rep.counters.get('grid_foreign_requests', 0),
    ), assumptions=[
        "mc/ref/versions.py is the reading of the KMIP 1.0-2.0 specifications used as the oracle",
        "'refuses' = any failure response without side effects; Operation Policy Name may stop being "
        "reported at KMIP 1.3 (deprecated) or at 2.0 (removed)",
    ])


def replay(doc):
    part = Part()
    m = doc.get('matrix')
    if m == 'grid':
        g = doc['grid']
        grid_fields(part, (g[0], tuple(g[1])), [tuple(doc['version'])])
        v = [x for x in part.violations if x[2].get('probe') == doc.get('probe')]
        return bool(v), '\n'.join("%s: %s" % (k, t) for k, t, _ in v[:20]) or 'no violation'
    fn = {'operation': op_matrix, 'unsupported': unsupported_versions, 'attributes': attribute_matrix,
          'supply': attribute_matrix, 'fields': field_matrix, 'fields-in': field_matrix,
          'discover': discover_and_query, 'query': discover_and_query}.get(m)
    if fn is None:
        return False, 'unknown case'
    fn(part)
    v = part.violations
    return bool(v), '\n'.join("%s: %s" % (k, t) for k, t, _ in v[:20]) or 'no violation'
