"""C09 - crash consistency: acknowledged operations survive, others are all-or-nothing.

Fault enumeration: a fixed workload covering every state-changing operation is cut at EVERY
crash point - statement level in process (quick+thorough) and every file-mutating syscall of the
server process out of process under strace fault injection (thorough). Each survivor is opened by
a fresh KmipEngine and compared with the reference states of an uncrashed run.
"""
import itertools
import json
import os
import shutil
import subprocess
import sys
import tempfile

from mc import world as W
from mc import crash
from mc.world import enums, CUM, AT
from mc.ref import store as ref_store
from mc.report import Reporter, Part
from mc.par import pmap

E = enums
MASKS = [CUM.ENCRYPT, CUM.DECRYPT, CUM.DERIVE_KEY]
W.use_rsa_pool()

CHAIN = {
    'SymmetricKey': ['crypto_objects', 'keys', 'symmetric_keys'],
    'PublicKey': ['crypto_objects', 'keys', 'public_keys'],
    'PrivateKey': ['crypto_objects', 'keys', 'private_keys'],
    'SplitKey': ['crypto_objects', 'keys', 'split_keys'],
    'SecretData': ['crypto_objects', 'secret_data_objects'],
    'X509Certificate': ['crypto_objects', 'certificates', 'x509_certificates'],
    'OpaqueObject': ['opaque_objects'],
}


def workload(name='main'):
    """List of (label, version, item builder(ctx)). ctx maps labels to identifiers."""
    if name == 'attributes':
        return workload_attributes()
    if name.startswith('seq:'):
        return workload_seq(name[4:])
    if name == 'core':
        keep = ('create', 'create_key_pair', 'register_secret', 'activate', 'modify_1x', 'delete_1x',
                'revoke', 'destroy_deactivated')
        return [e for e in workload('main') if e[0] in keep]
    c = W.common_attrs
    wl = [
        ('create', (1, 2), lambda x: W.p_create(W.sym_attrs(masks=MASKS, names=['k', 'k-alias'],
                                                          groups=['g']))),
        ('create_key_pair', (1, 2), lambda x: W.p_create_key_pair(**W.rsa_pair_attrs())),
        ('register_symmetric', (1, 4), lambda x: W.p_register(
            W.pie_symmetric(), c(names=['rs'], appinfo=[('ns', 'd')], sensitive=True) +
            [W.attr(AT.CRYPTOGRAPHIC_USAGE_MASK, MASKS)])),
        ('register_public', (1, 2), lambda x: W.p_register(W.pie_public(), c(names=['rp']))),
        ('register_private', (1, 2), lambda x: W.p_register(W.pie_private(), c(groups=['g', 'h']))),
        ('register_split', (1, 2), lambda x: W.p_register(W.pie_split(), c(names=['sp']))),
        ('register_secret', (1, 2), lambda x: W.p_register(
            W.pie_secret(), c(names=['sd'], groups=['g'], appinfo=[('ns', 'd'), ('ns2', 'e')]))),
        ('register_certificate', (1, 2), lambda x: W.p_register(W.pie_certificate(), c(names=['ce']))),
        ('register_opaque', (1, 2), lambda x: W.p_register(W.pie_opaque(), c(names=['op1', 'op2']))),
        ('derive_key', (1, 2), lambda x: W.p_derive_key([x['create']])),
        ('activate', (1, 2), lambda x: W.p_activate(x['create'])),
        ('modify_1x', (1, 4), lambda x: W.p_modify_attribute_1x(x['create'], AT.NAME, 'renamed', 1)),
        ('modify_20', (2, 0), lambda x: W.p_modify_attribute_20(
            x['register_secret'], AT.OBJECT_GROUP, 'g2', 'g')),
        ('set_20', (2, 0), lambda x: W.p_set_attribute(x['register_secret'], AT.SENSITIVE, True)),
        ('delete_1x', (1, 4), lambda x: W.p_delete_attribute_1x(x['create'], 'Name', 0)),
        ('delete_20', (2, 0), lambda x: W.p_delete_attribute_20(
            x['register_secret'], AT.APPLICATION_SPECIFIC_INFORMATION)),
        ('batch_create_activate', (1, 2), lambda x: [W.p_create(W.sym_attrs(masks=MASKS)),
                                                     W.p_get_attributes()]),
        ('revoke', (1, 2), lambda x: W.p_revoke(x['create'])),
        ('destroy_deactivated', (1, 2), lambda x: W.p_destroy(x['create'])),
        ('activate_2', (1, 2), lambda x: W.p_activate(x['register_symmetric'])),
        ('revoke_compromise', (1, 2), lambda x: W.p_revoke(
            x['register_symmetric'], E.RevocationReasonCode.KEY_COMPROMISE)),
        ('destroy_compromised', (1, 2), lambda x: W.p_destroy(x['register_symmetric'])),
        ('revoke_preactive_compromise', (1, 2), lambda x: W.p_revoke(
            x['register_split'], E.RevocationReasonCode.KEY_COMPROMISE)),
        ('destroy_compromised_2', (1, 2), lambda x: W.p_destroy(x['register_split'])),
        ('destroy_opaque', (1, 2), lambda x: W.p_destroy(x['register_opaque'])),
        ('destroy_preactive', (1, 2), lambda x: W.p_destroy(x['register_public'])),
    ]
    return wl


SEQ_ALPHABET = 'arcdmxsnk'


def workload_seq(codes):
    """Generated family: one Create (two names, a group) followed by the operations `codes` spell,
    all aimed at that one object (k creates a neighbour). Operations may fail - a failed one must
    leave the file as it was; an acknowledged one must have changed it."""
    wl = [('create', (1, 4), lambda x: W.p_create(W.sym_attrs(masks=MASKS, names=['k', 'k2'], groups=['g'])))]
    RC = E.RevocationReasonCode
    for i, ch in enumerate(codes):
        b = {
            'a': ((1, 4), lambda x, i=i: W.p_activate(x['create'])),
            'r': ((1, 4), lambda x, i=i: W.p_revoke(x['create'])),
            'c': ((1, 4), lambda x, i=i: W.p_revoke(x['create'], RC.KEY_COMPROMISE)),
            'd': ((1, 4), lambda x, i=i: W.p_destroy(x['create'])),
            'm': ((1, 4), lambda x, i=i: W.p_modify_attribute_1x(x['create'], AT.NAME, 'v%d' % i, 0)),
            'x': ((1, 4), lambda x, i=i: W.p_delete_attribute_1x(x['create'], 'Name', 0)),
            's': ((2, 0), lambda x, i=i: W.p_set_attribute(x['create'], AT.SENSITIVE, True)),
            'n': ((2, 0), lambda x, i=i: W.p_delete_attribute_20(x['create'], AT.OBJECT_GROUP)),
            'k': ((1, 4), lambda x, i=i: W.p_create(W.sym_attrs(masks=MASKS, names=['n%d' % i]))),
        }[ch]
        wl.append(('op%d_%s' % (i, ch), b[0], b[1]))
    return wl


APPI = lambda ns, d: {"application_namespace": ns, "application_data": d}      # noqa: E731
BEO = E.BatchErrorContinuationOption


def workload_attributes():
    """Second workload: every attribute operation form on every multi-valued attribute of one rich
    object, multi-item batches that commit more than once, failing items between succeeding ones,
    a wrapped key, a derived key with names, a pair whose private half is destroyed."""
    c = W.common_attrs
    rich = lambda: c(names=['n0', 'n1', 'n2'], groups=['g0', 'g1'], appinfo=[('ns', 'd0'), ('ns', 'd1')],   # noqa
                     sensitive=False)
    return [
        ('create', (1, 4), lambda x: W.p_create(W.sym_attrs(masks=MASKS) + rich())),
        ('register_rich_secret', (1, 4), lambda x: W.p_register(W.pie_secret(), rich())),
        ('mod_name_1', (1, 4), lambda x: W.p_modify_attribute_1x(x['create'], AT.NAME, 'm1', 1)),
        ('mod_name_noidx', (1, 4), lambda x: W.p_modify_attribute_1x(x['create'], AT.NAME, 'm0')),
        ('mod_group_1', (1, 4), lambda x: W.p_modify_attribute_1x(x['create'], AT.OBJECT_GROUP, 'h1', 1)),
        ('mod_app_0', (1, 4), lambda x: W.p_modify_attribute_1x(
            x['create'], AT.APPLICATION_SPECIFIC_INFORMATION, APPI('ns', 'e0'), 0)),
        ('mod_sensitive', (1, 4), lambda x: W.p_modify_attribute_1x(x['create'], AT.SENSITIVE, True)),
        ('failing_mod_oob', (1, 4), lambda x: W.p_modify_attribute_1x(x['create'], AT.NAME, 'zz', 9)),
        ('del_name_2', (1, 4), lambda x: W.p_delete_attribute_1x(x['create'], 'Name', 2)),
        ('del_group_0', (1, 4), lambda x: W.p_delete_attribute_1x(x['create'], 'Object Group', 0)),
        ('del_app_1', (1, 4), lambda x: W.p_delete_attribute_1x(
            x['create'], 'Application Specific Information', 1)),
        ('batch_two_mods', (1, 4), lambda x: [
            W.p_modify_attribute_1x(x['register_rich_secret'], AT.NAME, 'b0', 0),
            W.p_modify_attribute_1x(x['register_rich_secret'], AT.OBJECT_GROUP, 'bg', 0)]),
        ('batch_mod_fail_mod', (1, 4), lambda x: [
            W.p_modify_attribute_1x(x['register_rich_secret'], AT.NAME, 'c1', 1),
            W.p_get('999'),
            W.p_delete_attribute_1x(x['register_rich_secret'], 'Name', 2)], {'error_option': BEO.CONTINUE}),
        ('set20_sensitive', (2, 0), lambda x: W.p_set_attribute(x['register_rich_secret'], AT.SENSITIVE, True)),
        ('mod20_name', (2, 0), lambda x: W.p_modify_attribute_20(
            x['register_rich_secret'], AT.NAME, 'q0', 'b0')),
        ('mod20_app', (2, 0), lambda x: W.p_modify_attribute_20(
            x['register_rich_secret'], AT.APPLICATION_SPECIFIC_INFORMATION, APPI('ns', 'q1'),
            APPI('ns', 'd1'))),
        ('del20_name_cur', (2, 0), lambda x: W.p_delete_attribute_20(
            x['register_rich_secret'], AT.NAME, 'c1')),
        ('del20_group_ref', (2, 0), lambda x: W.p_delete_attribute_20(
            x['register_rich_secret'], AT.OBJECT_GROUP)),
        ('del20_app_cur', (2, 0), lambda x: W.p_delete_attribute_20(
            x['register_rich_secret'], AT.APPLICATION_SPECIFIC_INFORMATION, APPI('ns', 'd0'))),
        ('activate', (1, 4), lambda x: W.p_activate(x['create'])),
        ('derive_named', (1, 4), lambda x: W.p_derive_key(
            [x['create']], attrs=W.sym_attrs(masks=MASKS, names=['dk0', 'dk1'], groups=['g0']))),
        ('register_wrapped', (1, 4), lambda x: W.p_register(_wrapped_key(x['create']))),
        ('create_key_pair', (1, 4), lambda x: W.p_create_key_pair(**W.rsa_pair_attrs())),
        ('destroy_private_half', (1, 4), lambda x: W.p_destroy(x['create_key_pair'])),
        ('batch_create_destroy', (1, 4), lambda x: [
            W.p_create(W.sym_attrs(masks=MASKS, names=['tmp'])), W.p_destroy()]),
        ('revoke_dated', (1, 4), lambda x: W.p_revoke(
            x['create'], E.RevocationReasonCode.KEY_COMPROMISE, 'leaked', W.T0 - 5)),
        ('destroy_rich', (1, 4), lambda x: W.p_destroy(x['create'])),
        ('destroy_secret', (2, 0), lambda x: W.p_destroy(x['register_rich_secret'])),
    ]


def _wrapped_key(kek_uid):
    from kmip.pie import objects as pobjects
    return pobjects.SymmetricKey(
        E.CryptographicAlgorithm.AES, 128, b'\x99' * 24,
        key_wrapping_data={'wrapping_method': E.WrappingMethod.ENCRYPT,
                           'encryption_key_information': {
                               'unique_identifier': kek_uid,
                               'cryptographic_parameters': {'block_cipher_mode': E.BlockCipherMode.NIST_KEY_WRAP}},
                           'encoding_option': E.EncodingOption.NO_ENCODING})


WORKLOADS = ['main', 'attributes']

# What an acknowledged operation must have left in the database FILE (read without the server, so
# nothing a session merely holds in memory counts): label -> predicate(objects, ids). A small
# independent model of the attribute operations and state changes - the reference states below come
# from the implementation itself and could not show an acknowledged change that was never written.
ST = E.State


def _o(objs, ids, label):
    return objs.get(ids.get(label) or '', {})


POST = {
    'main': {
        'activate': lambda o, x: _o(o, x, 'create').get('state') == ST.ACTIVE.value,
        'modify_1x': lambda o, x: _o(o, x, 'create').get('names') == ['k', 'renamed'],
        'modify_20': lambda o, x: _o(o, x, 'register_secret').get('groups') == ['g2'],
        'set_20': lambda o, x: _o(o, x, 'register_secret').get('sensitive') is True,
        'delete_1x': lambda o, x: _o(o, x, 'create').get('names') == ['renamed'],
        'delete_20': lambda o, x: _o(o, x, 'register_secret').get('appinfo') == [],
        'revoke': lambda o, x: _o(o, x, 'create').get('state') == ST.DEACTIVATED.value,
        'destroy_deactivated': lambda o, x: x['create'] not in o,
        'revoke_compromise': lambda o, x: _o(o, x, 'register_symmetric').get('state') == ST.COMPROMISED.value,
        'destroy_compromised': lambda o, x: x['register_symmetric'] not in o,
        'destroy_opaque': lambda o, x: x['register_opaque'] not in o,
        'register_secret': lambda o, x: _o(o, x, 'register_secret').get('names') == ['sd'] and
        len(_o(o, x, 'register_secret').get('appinfo')) == 2,
    },
    'attributes': {
        'mod_name_1': lambda o, x: _o(o, x, 'create').get('names') == ['n0', 'm1', 'n2'],
        'mod_name_noidx': lambda o, x: _o(o, x, 'create').get('names') == ['m0', 'm1', 'n2'],
        'mod_group_1': lambda o, x: _o(o, x, 'create').get('groups') == ['g0', 'h1'],
        'mod_app_0': lambda o, x: [list(a) for a in _o(o, x, 'create').get('appinfo')] == [['ns', 'e0'], ['ns', 'd1']],
        'mod_sensitive': lambda o, x: _o(o, x, 'create').get('sensitive') is True,
        'failing_mod_oob': lambda o, x: _o(o, x, 'create').get('names') == ['m0', 'm1', 'n2'],
        'del_name_2': lambda o, x: _o(o, x, 'create').get('names') == ['m0', 'm1'],
        'del_group_0': lambda o, x: _o(o, x, 'create').get('groups') == ['h1'],
        'del_app_1': lambda o, x: [list(a) for a in _o(o, x, 'create').get('appinfo')] == [['ns', 'e0']],
        'batch_two_mods': lambda o, x: _o(o, x, 'register_rich_secret').get('names')[0] == 'b0' and
        _o(o, x, 'register_rich_secret').get('groups')[0] == 'bg',
        'batch_mod_fail_mod': lambda o, x: _o(o, x, 'register_rich_secret').get('names') == ['b0', 'c1'],
        'set20_sensitive': lambda o, x: _o(o, x, 'register_rich_secret').get('sensitive') is True,
        'mod20_name': lambda o, x: _o(o, x, 'register_rich_secret').get('names') == ['q0', 'c1'],
        'mod20_app': lambda o, x: ['ns', 'q1'] in [list(a) for a in _o(o, x, 'register_rich_secret').get('appinfo')],
        'del20_name_cur': lambda o, x: _o(o, x, 'register_rich_secret').get('names') == ['q0'],
        'del20_group_ref': lambda o, x: _o(o, x, 'register_rich_secret').get('groups') == [],
        'del20_app_cur': lambda o, x: [list(a) for a in _o(o, x, 'register_rich_secret').get('appinfo')] == [['ns', 'q1']],
        'activate': lambda o, x: _o(o, x, 'create').get('state') == ST.ACTIVE.value,
        'derive_named': lambda o, x: _o(o, x, 'derive_named').get('names') == ['dk0', 'dk1'],
        'destroy_private_half': lambda o, x: x['create_key_pair'] not in o,
        'revoke_dated': lambda o, x: _o(o, x, 'create').get('state') == ST.COMPROMISED.value,
        'destroy_rich': lambda o, x: x['create'] not in o,
        'destroy_secret': lambda o, x: x['register_rich_secret'] not in o,
    },
}
POST['core'] = {k: v for k, v in POST['main'].items() if k in (
    'activate', 'modify_1x', 'delete_1x', 'revoke', 'destroy_deactivated')}
LAST_CTX = {}


def run_workload(w, on_before=None, on_ack=None, name='main', on_item=None):
    """Runs the workload on world w; returns list of (label, ok)."""
    ctx = {}
    out = []
    W.ENTROPY.constant = True
    for i, entry in enumerate(workload(name)):
        label, version, build = entry[:3]
        hdr = entry[3] if len(entry) > 3 else {}
        W.CLOCK.now = W.T0 + i
        if on_before:
            on_before(i, label)
        items = build(ctx)
        if on_item is not None and isinstance(items, list) and len(items) > 1:
            on_item(i, label, version, items, hdr)      # reference runs: item by item
            items = build(ctx)
        r = w.do(version, items, **hdr)
        LAST_CTX['_ok'] = all(it.ok() for it in r.items)
        ok = LAST_CTX['_ok'] or label.startswith(('failing', 'batch_mod_fail', 'op'))
        uid = r.uid() if r.items and r.items[0].payload else None
        if uid is None and r.items and r.items[0].payload:
            uid = r.pfind(W.TAG.PRIVATE_KEY_UNIQUE_IDENTIFIER)
        ctx[label] = uid
        _okv = LAST_CTX.get('_ok')
        LAST_CTX.clear()
        LAST_CTX.update(ctx)
        LAST_CTX['_ok'] = _okv
        out.append((label, ok, r.brief()))
        if on_ack:
            on_ack(i, label)
    return out


# identifiers of the CreateKeyPair halves in each workload
RSA_IDS = {'main': ('2', '3'), 'attributes': ('5', '6'), 'core': ('2', '3')}
RSA_GENERATED = RSA_IDS['main']


class States(list):
    unwritten = ()
    """S_0..S_n plus, per operation index, the intermediate states a multi-item batch passes
    through (each item is an operation of its own: all-or-nothing holds per item)."""
    extra = {}
    name = 'main'


def view(dump):
    objs = ref_store.objects(dump)
    out = {}
    for u, o in objs.items():
        o = dict(o)
        o.pop('key_row', None)
        o['value'] = o['value'].hex() if isinstance(o.get('value'), bytes) else o.get('value')
        if u in RSA_GENERATED:
            # generated by OpenSSL's RNG (not ownable): only presence and size class are compared
            o['value'] = 'rsa-generated:%d' % (len(o['value'] or '') // 64)
        sp = o.pop('split', None)
        if sp:
            o['split'] = {k: v for k, v in sp.items()}
        out[u] = o
    return json.dumps(out, sort_keys=True, default=str)


def reference_states(name='main'):
    """S_0 .. S_n of an uncrashed run (+ per-op labels/results)."""
    global RSA_GENERATED
    RSA_GENERATED = RSA_IDS.get(name, ())
    w = W.World()
    try:
        states = States([view(w.dump())])
        states.extra = {}
        states.name = name

        def on_item(i, label, version, items, hdr):
            # the states after each proper prefix of a multi-item batch, by sending the items one
            # request each to a clone
            c = w.clone()
            try:
                mids = []
                for it in items[:-1]:
                    c.do(version, it)
                    mids.append(view(c.dump()))
                states.extra[i] = mids
            finally:
                c.close()
        states.unwritten = []

        def on_ack(i, label):
            dump = w.dump()
            states.append(view(dump))
            pred = POST.get(name, {}).get(label)
            if pred is not None:
                try:
                    held = pred(ref_store.objects(dump), dict(LAST_CTX))
                except Exception as e:   # noqa
                    held = False
                if not held:
                    states.unwritten.append(label)
            if name.startswith('seq:') and label.startswith('op'):
                # generic form of the same oracle: an operation acknowledged as successful changed the
                # file (a, d, m, x, k change something whenever they succeed; the idempotent ones - r, c, s, n -
                # are only judged the first time they appear)
                ch, first = label[-1], name[4:].index(label[-1]) == int(label[2:-2])
                states.acks = getattr(states, 'acks', []) + [bool(LAST_CTX.get('_ok'))]
                if LAST_CTX.get('_ok') and states[-1] == states[-2] and (ch in 'admxk' or first):
                    states.unwritten.append(label)
        res = run_workload(w, on_ack=on_ack, name=name, on_item=on_item)
        return states, res
    finally:
        w.close()


def partial_objects(dump):
    bad = []
    cols, rows = dump['managed_objects']
    ci, ui = cols.index('class_type'), cols.index('uid')
    present = {}
    for t, (c, r) in dump.items():
        if 'uid' in c:
            present[t] = set(x[c.index('uid')] for x in r)
    for r in rows:
        for t in CHAIN.get(r[ci], []):
            if r[ui] not in present.get(t, set()):
                bad.append("object %s (%s) has no row in %s" % (r[ui], r[ci], t))
    return bad


def check_survivor(dbfile, acked, states, labels):
    """Returns list of (key, what)."""
    global RSA_GENERATED
    RSA_GENERATED = RSA_IDS.get(getattr(states, 'name', 'main'), ())
    bad = []
    tmp = tempfile.mkdtemp(prefix='verif-c09s-', dir=W.SCRATCH_BASE)
    try:
        db = os.path.join(tmp, 'kmip.db')
        crash.copy_files(dbfile, db)
        try:
            w = W.World(db_from=db)
            for suf in crash.SIDE_FILES[1:]:
                if os.path.exists(db + suf):
                    shutil.copyfile(db + suf, w.db + suf)
            w.restart(clean=True)
        except Exception as e:
            return [("cannot-open", "a fresh engine cannot open the survivor: %s: %s" % (
                type(e).__name__, str(e)[:200]))]
        try:
            r = w.do((1, 4), W.p_locate())
            if not r.items[0].ok():
                bad.append(("cannot-list", "Locate on the survivor fails: %s" % r.brief()))
            else:
                ids = [c[2] for c in (r.items[0].payload[2] if r.items[0].payload else [])]
                for u in ids:
                    for nm, item in (('Get', W.p_get(u)), ('GetAttributes', W.p_get_attributes(u))):
                        rr = w.do((1, 4), item)
                        if not rr.items[0].ok():
                            bad.append(("cannot-read|%s" % nm, "%s of object %s fails on the survivor: "
                                        "%s" % (nm, u, rr.brief())))
            dump = w.dump()
            for p in partial_objects(dump):
                bad.append(("partial-object", p))
            v = view(dump)
            allowed = [states[acked], states[min(acked + 1, len(states) - 1)]] + list(
                getattr(states, 'extra', {}).get(acked, []))
            if v not in allowed:
                which = "neither S_%d nor S_%d" % (acked, acked + 1)
                bad.append(("state-mismatch|op=%s" % (labels[acked] if acked < len(labels) else 'end'),
                            "with %d operations acknowledged (in flight: %s) the survivor's store is %s: %s"
                            % (acked, labels[acked] if acked < len(labels) else '-', which,
                               _vdiff(states[acked], v))))
        finally:
            w.close()
    finally:
        shutil.rmtree(tmp, ignore_errors=True)
    return bad


def _vdiff(a, b):
    a, b = json.loads(a), json.loads(b)
    out = []
    for u in sorted(set(a) | set(b), key=int):
        if a.get(u) != b.get(u):
            if u not in a:
                out.append("object %s appeared" % u)
            elif u not in b:
                out.append("object %s vanished" % u)
            else:
                d = [k for k in a[u] if a[u].get(k) != b[u].get(k)]
                out.append("object %s differs in %s (%s -> %s)" % (
                    u, d, [a[u].get(k) for k in d], [b[u].get(k) for k in d]))
    return '; '.join(out)[:400]


# ---- statement level ---------------------------------------------------------------------
def statement_level(part, states, labels, only_last=False):
    tmp = tempfile.mkdtemp(prefix='verif-c09-', dir=W.SCRATCH_BASE)
    w = W.World()
    try:
        rec = crash.StatementCrashRecorder(w.engine, w.db, tmp)
        w.engine._data_store.dispose()

        def before(i, label):
            # only_last: the crash points of a generated sequence's prefix belong to the shorter sequence
            rec.current_op = label if (not only_last or i == len(labels) - 1) else None
            rec.explicit('request-received')

        def ack(i, label):
            rec.explicit('before-response-returned')
            rec.acked = i + 1
            rec.explicit('after-ack')

        run_workload(w, before, ack, name=getattr(states, 'name', 'main'))
        rec.current_op = None
        pts = rec.points
    finally:
        w.close()
    return tmp, pts


def _stmt_worker(task):
    pts, states, labels = task
    part = Part()
    for p in pts:
        bad = check_survivor(p['file'], p['acked'], states, labels)
        part.count('crash_points')
        part.counters.setdefault('_kinds', set()).add((p['event'], p['stmt'].split(' ')[0] if p['stmt'] else ''))
        for key, what in bad:
            part.violation("%s|%s" % (key, p['op']),
                           "crash at statement-level point %d (%s %s) during '%s': %s" % (
                               p['k'], p['event'], p['stmt'], p['op'], what),
                           {'level': 'statement', 'point': p['k'], 'event': p['event'],
                            'stmt': p['stmt'], 'op': p['op']})
    if pts:
        part.sample({'level': 'statement', 'point': pts[len(pts) // 2]['k'],
                     'event': pts[len(pts) // 2]['event'], 'stmt': pts[len(pts) // 2]['stmt'],
                     'during': pts[len(pts) // 2]['op'], 'acked': pts[len(pts) // 2]['acked']})
    out = part.as_dict()
    out['kinds'] = sorted(part.counters.pop('_kinds', set()))
    return out


def sequences(depth):
    out = []
    for n in range(1, depth + 1):
        out += [''.join(t) for t in itertools.product(SEQ_ALPHABET, repeat=n)]
    return out


def _seq_worker(codes_list):
    """Every crash point of the LAST operation of each generated sequence."""
    part = Part()
    kinds = set()
    for codes in codes_list:
        name = 'seq:' + codes
        states, res = reference_states(name)
        labels = [r[0] for r in res]
        part.count('sequences')
        part.count('sequence_ops_acknowledged', sum(getattr(states, 'acks', [])))
        part.count('sequence_ops_refused', len(getattr(states, 'acks', [])) - sum(getattr(states, 'acks', [])))
        part.counters.setdefault('_states', set()).add(states[-1])
        for label in states.unwritten:
            part.violation("acknowledged-not-written|%s|wl=%s" % (label[-1], name),
                           "sequence create,%s: '%s' was acknowledged as successful but, with no crash at "
                           "all, the database file is unchanged" % (','.join(codes), label),
                           {'level': 'postcondition', 'workload': name, 'op': label})
        tmp, pts = statement_level(None, states, labels, only_last=True)
        try:
            for p in pts:
                bad = check_survivor(p['file'], p['acked'], states, labels)
                part.count('crash_points')
                part.count('sequence_points')
                kinds.add((p['event'], p['stmt'].split(' ')[0] if p['stmt'] else ''))
                for key, what in bad:
                    part.violation("%s|%s|wl=%s" % (key, p['op'][-1], name),
                                   "sequence create,%s: crash at point %d (%s %s) during '%s': %s" % (
                                       ','.join(codes), p['k'], p['event'], p['stmt'], p['op'], what),
                                   {'level': 'statement', 'point': p['k'], 'event': p['event'],
                                    'stmt': p['stmt'], 'op': p['op'], 'workload': name, 'only_last': True})
        finally:
            shutil.rmtree(tmp, ignore_errors=True)
    out = part.as_dict()
    out['kinds'] = sorted(kinds)
    out['final_states'] = sorted(part.counters.pop('_states', set()))
    return out


# ---- lock level: the database refuses the write ------------------------------------------------------
def lock_level(name, states, labels):
    """Another connection holds SQLite's write lock while ONE operation of the workload is served (busy
    timeout 0): whatever the server does about the refused write, an operation it acknowledges as
    successful has its effect in the file, and one it reports as failed has none."""
    import sqlite3
    import sqlalchemy
    part = Part()
    tmp = tempfile.mkdtemp(prefix='verif-c09l-', dir=W.SCRATCH_BASE)
    snaps = {}
    w = W.World()
    try:
        def before(i, label):
            w.engine._data_store.dispose()
            f = os.path.join(tmp, 's%03d.db' % i)
            crash.copy_files(w.db, f)
            snaps[i] = (f, {k: v for k, v in LAST_CTX.items() if k != '_ok'} if i else {})
        run_workload(w, before, None, name=name)
    finally:
        w.close()
    wl = workload(name)
    try:
        for i, entry in enumerate(wl):
            label, version, build = entry[:3]
            hdr = entry[3] if len(entry) > 3 else {}
            f, ctx = snaps[i]
            w = W.World(db_from=f)
            try:
                sqlalchemy.event.listen(w.engine._data_store, 'connect',
                                        lambda c, r: c.execute('PRAGMA busy_timeout=0'))
                w.engine._data_store.dispose()
                W.ENTROPY.constant = True
                W.CLOCK.now = W.T0 + i
                holder = sqlite3.connect(w.db, isolation_level=None, timeout=0)
                holder.execute('BEGIN IMMEDIATE')
                try:
                    r = w.do(version, build(dict(ctx)), **hdr)
                finally:
                    holder.execute('ROLLBACK')
                    holder.close()
                part.count('crash_points')
                part.count('lock_points')
                acked = bool(r.items) and all(it.ok() for it in r.items)
                v = view(w.dump())
                changes = states[i] != states[i + 1]
                part.counters.setdefault('_kinds', set()).add(('write-refused', 'acked' if acked else 'failed'))
                if acked and changes and v != states[i + 1]:
                    part.violation("acknowledged-not-written|%s|lock" % label,
                                   "workload '%s': '%s' was served while another connection held the "
                                   "database's write lock; the answer is %s (success), yet the file is %s" % (
                                       name, label, r.brief(),
                                       'unchanged' if v == states[i] else 'neither S_%d nor S_%d: %s' % (
                                           i, i + 1, _vdiff(states[i], v))),
                                   {'level': 'lock', 'workload': name, 'op': label, 'index': i})
                elif v not in [states[i], states[i + 1]] + list(getattr(states, 'extra', {}).get(i, [])):
                    part.violation("state-mismatch|op=%s|lock" % label,
                                   "workload '%s': '%s' under a held write lock (answer %s) leaves the file in "
                                   "neither S_%d nor S_%d: %s" % (name, label, r.brief(), i, i + 1,
                                                                   _vdiff(states[i], v)),
                                   {'level': 'lock', 'workload': name, 'op': label, 'index': i})
            finally:
                w.close()
    finally:
        shutil.rmtree(tmp, ignore_errors=True)
    out = part.as_dict()
    out['kinds'] = sorted(part.counters.pop('_kinds', set()))
    return out


# ---- syscall level ---------------------------------------------------------------------------
WORKLOAD_MAIN = r'''
import sys, warnings
warnings.simplefilter('ignore')
sys.path.insert(0, %(verif)r)
from checks import c09_crash as c
from mc import world as W
w = W.World.__new__(W.World)
w.dir = %(dir)r; w.db = %(db)r; w.policies = W.default_policies(); w.sessions = {}; w.slugs_groups = {}
w.open_engine()
def ack(i, label):
    sys.stdout.write("ACK %%d\n" %% (i + 1)); sys.stdout.flush()
c.run_workload(w, None, ack, name=%(name)r)
sys.stdout.write("DONE\n"); sys.stdout.flush()
'''


def _syscall_worker(task):
    syscall, ns, states, labels, env = task
    part = Part()
    for n in ns:
        tmp = tempfile.mkdtemp(prefix='verif-c09k-', dir=W.SCRATCH_BASE)
        try:
            db = os.path.join(tmp, 'kmip.db')
            shutil.copyfile(W.template_db(), db)
            code = WORKLOAD_MAIN % {'verif': os.path.dirname(os.path.dirname(os.path.abspath(__file__))),
                                    'dir': tmp, 'db': db, 'name': getattr(states, 'name', 'main')}
            out, rc = crash.run_with_kill(['/venv/bin/python', '-c', code], env, syscall, n)
            acked = len([l for l in out.splitlines() if l.startswith('ACK')])
            done = 'DONE' in out
            part.count('crash_points')
            if done:
                part.count('syscall_points_beyond_workload')
                continue
            part.counters.setdefault('_kinds', set()).add((syscall, 'killed'))
            bad = check_survivor(db, acked, states, labels)
            for key, what in bad:
                part.violation("%s|%s" % (key, labels[acked] if acked < len(labels) else 'end'),
                               "kill at %s #%d (during '%s', %d acknowledged): %s" % (
                                   syscall, n, labels[acked] if acked < len(labels) else '-', acked,
                                   what),
                               {'level': 'syscall', 'syscall': syscall, 'n': n})
        finally:
            shutil.rmtree(tmp, ignore_errors=True)
    if ns:
        part.sample({'level': 'syscall', 'syscall': syscall, 'n': ns[len(ns) // 2]})
    out_ = part.as_dict()
    out_['kinds'] = sorted(part.counters.pop('_kinds', set()))
    return out_


def _child_env():
    env = dict(os.environ)
    env['PYTHONWARNINGS'] = 'ignore'
    env['PYTHONDONTWRITEBYTECODE'] = '1'
    return env


def _one_workload(rep, tier, name, kinds, tot):
    states, res = reference_states(name)
    labels = [r[0] for r in res]
    failed = [r for r in res if not r[1]]
    if failed:
        rep.harness_error("workload '%s': operations fail on the uncrashed run: %s" % (name, failed[:3]))
    tot['distinct_states'] += len(set(states))
    tot['operations'] += len(labels)
    tot['postconditions'] = tot.get('postconditions', 0) + len(POST.get(name, {}))
    for label in getattr(states, 'unwritten', ()):
        rep.violation("acknowledged-not-written|%s|wl=%s" % (label, name),
                      "workload '%s': '%s' was acknowledged as successful but, with no crash at all, the "
                      "database file does not hold its effect (an acknowledged operation must survive the "
                      "death of the process right after its response)" % (name, label),
                      {'level': 'postcondition', 'workload': name, 'op': label})
    tmp, pts = statement_level(None, states, labels)
    try:
        n = 16
        for part in pmap(_stmt_worker, [(pts[i::n], states, labels) for i in range(n)]):
            kinds.update(tuple(k) for k in part.pop('kinds', []))
            _tag(part, name)
            rep.merge(part)
    finally:
        shutil.rmtree(tmp, ignore_errors=True)
    tot['stmt_points'] += len(pts)
    lpart = lock_level(name, states, labels)
    kinds.update(tuple(k) for k in lpart.pop('kinds', []))
    tot['stmt_points'] += lpart.get('counters', {}).get('lock_points', 0)
    _tag(lpart, name)
    rep.merge(lpart)
    if tier == 'thorough' or name == 'core':
        if not crash.strace_available():
            rep.harness_error("strace is not available: syscall-level crash points cannot run")
            return
        env = _child_env()
        tmpd = tempfile.mkdtemp(prefix='verif-c09c-', dir=W.SCRATCH_BASE)
        try:
            db = os.path.join(tmpd, 'kmip.db')
            shutil.copyfile(W.template_db(), db)
            code = WORKLOAD_MAIN % {'verif': os.path.dirname(os.path.dirname(os.path.abspath(__file__))),
                                    'dir': tmpd, 'db': db, 'name': name}
            counts, out, rc = crash.count_syscalls(['/venv/bin/python', '-c', code], env)
            if 'DONE' not in out:
                rep.harness_error("un-faulted run of workload '%s' under strace did not finish: rc=%s" % (
                    name, rc))
        finally:
            shutil.rmtree(tmpd, ignore_errors=True)
        tot['counts'][name] = counts
        tasks = []
        for sc, cnt in sorted(counts.items()):
            ns = list(range(1, cnt + 1))
            tot['sys_points'] += len(ns)
            k = max(1, min(16, len(ns) // 4 or 1))
            for i in range(k):
                if ns[i::k]:
                    tasks.append((sc, ns[i::k], states, labels, env))
        for part in pmap(_syscall_worker, tasks):
            kinds.update(tuple(k) for k in part.pop('kinds', []))
            _tag(part, name)
            rep.merge(part)


def _tag(part, name):
    """Violation keys and replay documents carry the workload they belong to."""
    part['violations'] = [("%s|wl=%s" % (k, name) if name != 'main' else k, what,
                           dict(r, workload=name)) for k, what, r in part.get('violations', [])]


def run(tier, seed):
    rep = Reporter('C09', 'fault_enumeration', tier, seed)
    kinds = set()
    tot = {'distinct_states': 0, 'operations': 0, 'stmt_points': 0, 'sys_points': 0, 'counts': {}}
    # quick: statement level for the two long workloads, statement + syscall level for the short
    # 'core' workload; thorough: both levels for all three
    for name in WORKLOADS + ['core']:
        _one_workload(rep, tier, name, kinds, tot)
    # generated family: every sequence of <= 2 (quick) / 3 (thorough) operations on one object
    seqs = sequences(3 if tier == 'thorough' else 2)
    finals = set()
    for part in pmap(_seq_worker, [seqs[i::32] for i in range(32)]):
        kinds.update(tuple(k) for k in part.pop('kinds', []))
        finals.update(part.pop('final_states', []))
        rep.merge(part)
    tot['stmt_points'] += rep.counters.get('sequence_points', 0)
    tot['distinct_states'] += len(finals)
    if rep.counters.get('sequence_ops_acknowledged', 0) < len(seqs) // 2 or len(finals) < 12:
        rep.harness_error("vacuous sequence family: %d sequences, %d acknowledged operations, %d final states" % (
            len(seqs), rep.counters.get('sequence_ops_acknowledged', 0), len(finals)))
    total = rep.counters.get('crash_points', 0)
    stmt_points, sys_points, distinct_states = tot['stmt_points'], tot['sys_points'], tot['distinct_states']
    counts = tot['counts']
    labels = range(tot['operations'])
    if stmt_points < 200 or distinct_states < 40:
        rep.harness_error("vacuous: %d statement-level points, %d distinct reference states" % (
            stmt_points, distinct_states))
    return rep.finish(dict(
        evaluations=total, distinct_nontrivial=len(kinds) + distinct_states,
        rule="a case is one crash point (survivor files) checked against the reference states; "
             "distinct_nontrivial = number of distinct (event kind, statement verb) / (syscall) "
             "classes of crash points plus the number of distinct reference states of the workloads. "
             "Workloads: 'main' (26 operations, every state-changing operation), 'attributes' (28: every "
             "attribute-operation form, multi-commit batches, wrapped/derived/pair objects), 'core' (8). "
             "Quick: statement level for all three, syscall level (kill at every pwrite64/fsync/"
             "fdatasync/ftruncate/unlink of the server process) for 'core'; thorough: both levels for "
             "all three. Generated family: Create followed by every sequence of <= 2 (quick) / 3 (thorough) "
             "operations from {Activate, Revoke, Revoke(compromise), Destroy, ModifyAttribute, "
             "DeleteAttribute, SetAttribute, DeleteAttribute(2.0), Create} on that one object, statement-"
             "level crash points of the last operation, plus 'acknowledged => file changed'. Lock level: every "
             "operation of the three workloads served while another connection holds SQLite's write lock",
        generated_sequences=rep.counters.get('sequences', 0),
        points_total=stmt_points + sys_points, points_covered=total,
        statement_level_points=stmt_points, syscall_level_points=sys_points,
        syscall_counts=counts, workload_operations=len(labels),
        distinct_reference_states=distinct_states, exhaustive=True,
        acknowledged_effect_postconditions=tot.get('postconditions', 0),
    ), assumptions=[
        "process death, not power loss: what was handed to the kernel survives; torn single writes "
        "are outside the property",
        "orphan per-class rows left by Destroy are unobservable and not counted (identifiers are "
        "never reused, C07)",
        "statement-level survivors are file copies taken inside SQLAlchemy event listeners of the "
        "running server",
    ])


def replay(doc):
    states, res = reference_states(doc.get('workload', 'main'))
    if doc.get('level') == 'postcondition':
        bad = doc['op'] in getattr(states, 'unwritten', ())
        return bad, "'%s' acknowledged, effect %s in the database file" % (
            doc['op'], 'NOT' if bad else 'present')
    labels = [r[0] for r in res]
    if doc.get('level') == 'statement':
        tmp, pts = statement_level(None, states, labels, only_last=bool(doc.get('only_last')))
        try:
            p = pts[doc['point']]
            bad = check_survivor(p['file'], p['acked'], states, labels)
            return bool(bad), "point %d (%s %s during %s): %s" % (
                p['k'], p['event'], p['stmt'], p['op'], bad or 'consistent')
        finally:
            shutil.rmtree(tmp, ignore_errors=True)
    if doc.get('level') == 'lock':
        out = lock_level(doc.get('workload', 'main'), states, labels)
        v = [x for x in out['violations'] if x[2].get('op') == doc['op']]
        return bool(v), '\n'.join("%s: %s" % (k, w_) for k, w_, _ in v) or 'consistent'
    part_ = _syscall_worker((doc['syscall'], [doc['n']], states, labels, _child_env()))
    v = part_['violations']
    return bool(v), '\n'.join("%s: %s" % (k, w_) for k, w_, _ in v) or 'consistent'
