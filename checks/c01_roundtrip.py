"""C01 - TTLV codec round trip for every encodable value and KMIP version.

Deviation-bounded exhaustive enumeration of constructible values (shape registry: presence lattice
+ value sweeps per class, hand-written boundary menus for the primitives, request messages for
every operation, response messages emitted by a real server) x 6 KMIP versions.
Oracles: dec(enc(v)) == v, enc(dec(enc(v))) == enc(v), a set field must reach the wire under at
least one version, primitives equal the independent TTLV implementation, and
dec(enc(dec(b))) == dec(b) for accepted byte strings.
"""
import copy
import inspect
import itertools

from mc import world as W
from mc.ref import shapes, ttlv
from mc.report import Reporter, Part
from mc.par import pmap

from kmip.core import enums, primitives, utils as cutils, exceptions, attributes
from kmip.core.messages import messages

KV = shapes.KV
VNAME = {k: str(k.value) for k in KV}
T = enums.Tags

_REG = None


def registry():
    global _REG
    if _REG is None:
        import logging
        logging.disable(logging.CRITICAL)
        try:
            _REG = shapes.Registry(hand=_inject_hand_domains)
        finally:
            logging.disable(logging.NOTSET)
    return _REG


def _inject_hand_domains(R):
    """Domains the generic discovery cannot know: attribute values depend on the attribute name."""
    A = W.AT
    attrs = [
        W.attr(A.NAME, 'n', 0), W.attr(A.CRYPTOGRAPHIC_ALGORITHM, enums.CryptographicAlgorithm.AES),
        W.attr(A.CRYPTOGRAPHIC_LENGTH, 128), W.attr(A.CRYPTOGRAPHIC_USAGE_MASK, [W.CUM.ENCRYPT]),
        W.attr(A.OBJECT_GROUP, 'g', 1), W.attr(A.SENSITIVE, False),
        W.attr(A.APPLICATION_SPECIFIC_INFORMATION,
               {"application_namespace": "ns", "application_data": "d"}),
        W.attr(A.OPERATION_POLICY_NAME, 'default'), W.attr(A.STATE, enums.State.ACTIVE),
        W.attr(A.INITIAL_DATE, 0), W.attr(A.OBJECT_TYPE, enums.ObjectType.SYMMETRIC_KEY),
        W.attr(A.UNIQUE_IDENTIFIER, '1'), W.attr(A.CERTIFICATE_TYPE, enums.CertificateType.X_509),
        W.attr(A.CONTACT_INFORMATION, 'me'), W.attr(A.LEASE_TIME, 0),
        W.attr(A.CRYPTOGRAPHIC_PARAMETERS, {'block_cipher_mode': enums.BlockCipherMode.CBC}),
        W.attr('x-custom', 'v'),
    ]
    # a second, different value for every attribute type the library can build, and the attribute
    # types the first list lacks (dates, flags, lengths, Digest): pairs of same-named attributes with
    # different values are what shows one decoded value overwriting another
    from kmip.core import attributes as cattr_mod, objects as cobj_mod
    E_ = enums
    second = {
        A.NAME: ('m', 1), A.CRYPTOGRAPHIC_ALGORITHM: (E_.CryptographicAlgorithm.RSA, None),
        A.CRYPTOGRAPHIC_LENGTH: (256, None), A.CRYPTOGRAPHIC_USAGE_MASK: ([W.CUM.SIGN, W.CUM.VERIFY], None),
        A.OBJECT_GROUP: ('h', 0), A.SENSITIVE: (True, None),
        A.APPLICATION_SPECIFIC_INFORMATION: ({"application_namespace": "ns2", "application_data": "e"}, 1),
        A.OPERATION_POLICY_NAME: ('public', None), A.STATE: (E_.State.COMPROMISED, None),
        A.INITIAL_DATE: (1700000000, None), A.OBJECT_TYPE: (E_.ObjectType.SECRET_DATA, None),
        A.UNIQUE_IDENTIFIER: ('22', None), A.CERTIFICATE_TYPE: (E_.CertificateType.PGP, None),
        A.CONTACT_INFORMATION: ('you', None), A.LEASE_TIME: (3600, None),
        A.CRYPTOGRAPHIC_PARAMETERS: ({'block_cipher_mode': E_.BlockCipherMode.GCM, 'tag_length': 12}, None),
    }
    more = []
    for at, (v2, idx) in second.items():
        try:
            more.append(W.attr(at, v2, idx))
        except Exception:   # noqa
            pass
    for at in (A.ACTIVATION_DATE, A.PROCESS_START_DATE, A.PROTECT_STOP_DATE, A.DEACTIVATION_DATE,
               A.DESTROY_DATE, A.COMPROMISE_OCCURRENCE_DATE, A.COMPROMISE_DATE, A.ARCHIVE_DATE,
               A.LAST_CHANGE_DATE, A.ORIGINAL_CREATION_DATE):
        for v_ in (5, 1700000000):
            more.append(W.attr(at, v_))
    for at in (A.FRESH, A.ALWAYS_SENSITIVE, A.EXTRACTABLE, A.NEVER_EXTRACTABLE):
        for v_ in (False, True):
            more.append(W.attr(at, v_))
    for v_ in (0, 1024):
        more.append(W.attr(A.CERTIFICATE_LENGTH, v_))
    more.append(W.attr('x-custom', 'w'))
    digests = []
    for h_, dv, kf in ((E_.HashingAlgorithm.SHA_256, b'\x01' * 32, E_.KeyFormatType.RAW),
                       (E_.HashingAlgorithm.MD5, b'\x5a' * 16, E_.KeyFormatType.PKCS_1)):
        digests.append(cobj_mod.Attribute(
            attribute_name=cobj_mod.Attribute.AttributeName('Digest'),
            attribute_value=cattr_mod.Digest.create(h_, dv, kf)))
    more += digests
    vals = [a.attribute_value for a in attrs]
    R.domains[('Attribute', 'attribute_value')] = [None] + vals
    lists = [[attrs[0]], [attrs[1], attrs[2]], attrs[:5], [], [attrs[5]], [attrs[7]], attrs[8:13],
             [attrs[0], more[0]], digests, [more[1], attrs[1]], [digests[1], attrs[0], digests[0]]]
    attrs = attrs + more
    for c in ('TemplateAttribute', 'CommonTemplateAttribute', 'PrivateKeyTemplateAttribute',
              'PublicKeyTemplateAttribute'):
        R.domains[(c, 'attributes')] = [None] + lists
    R.hand_attrs = attrs
    R.fixed_instances = {'Attribute': {'min': attrs[0], 'full': attrs[1], 'full_kwargs': {}}}
    E_ = enums
    spec20 = [(A.NAME, 'n'), (A.CRYPTOGRAPHIC_ALGORITHM, E_.CryptographicAlgorithm.AES),
              (A.CRYPTOGRAPHIC_LENGTH, 128), (A.CRYPTOGRAPHIC_USAGE_MASK, [W.CUM.ENCRYPT]),
              (A.OBJECT_GROUP, 'g'), (A.SENSITIVE, False),
              (A.APPLICATION_SPECIFIC_INFORMATION, {'application_namespace': 'ns', 'application_data': 'd'}),
              (A.STATE, E_.State.ACTIVE), (A.INITIAL_DATE, 0), (A.OBJECT_TYPE, E_.ObjectType.SYMMETRIC_KEY),
              (A.UNIQUE_IDENTIFIER, '1'), (A.CERTIFICATE_TYPE, E_.CertificateType.X_509),
              (A.CONTACT_INFORMATION, 'me'), (A.LEASE_TIME, 0),
              (A.CRYPTOGRAPHIC_PARAMETERS, {'block_cipher_mode': E_.BlockCipherMode.CBC})]
    vals = [W.attr_value(n_, v_) for n_, v_ in spec20]      # KMIP 2.0 style: tagged by attribute
    # KMIP 2.0 containers of bare attribute values: only attribute values are legal members
    R.domains[('Attributes', 'attributes')] = [None, [], [vals[0]], [vals[1], vals[2]], vals[:6], [vals[12]],
                                               vals[7:12]]
    R.domains[('CurrentAttribute', 'attribute')] = [None] + vals[:14]
    R.domains[('NewAttribute', 'attribute')] = [None] + vals[:14]
    # every standard attribute NAME (the name <-> tag table is crossed whenever a name list is written
    # under KMIP 2.0), alone, all together in both orders, and next to a name the table lacks
    names = [e[0] for e in enums.attribute_name_tag_table]
    name_lists = [[n] for n in names] + [list(names), list(reversed(names)), [names[0], names[0]],
                                         ['x-custom'], [names[3], 'x-custom']]
    for c in ('GetAttributesRequestPayload', 'GetAttributeListResponsePayload'):
        R.domains[(c, 'attribute_names')] = R.domains.get((c, 'attribute_names'), [None]) + name_lists
    for c in ('DeleteAttributeRequestPayload', 'AttributeReference'):
        R.domains[(c, 'attribute_name')] = R.domains.get((c, 'attribute_name'), [None]) + names
    # cross-field dependency: the object type must name the class of the managed object
    for c in ('RegisterRequestPayload', 'GetResponsePayload'):
        R.domains[(c, 'object_type')] = [None]


def own_eq(cls):
    for k in cls.__mro__:
        if '__eq__' in k.__dict__:
            return k is not object
    return False


def fresh_reader(cls, obj, base_kwargs):
    kw = {k: None for k in base_kwargs}
    params = [p for p, d in shapes.params_of(cls)]
    if 'tag' in params and hasattr(obj, 'tag'):
        kw['tag'] = obj.tag
    if cls is primitives.Enumeration:
        kw['enum'] = obj.enum
    return cls(**kw)


_PREV = {}      # (class, version) -> (decoded object, its bytes): the value decoded just before


def _prev_changed(cls, kv, r, b):
    """Decoding a value must not change the value decoded before it. Returns a description of the
    previous value's change, or None; then remembers (r, b) as the new previous value."""
    out = None
    prev = _PREV.get((cls, kv))
    if prev is not None and prev[1] != b:
        try:
            again = shapes.encode(prev[0], kv)
        except Exception as e:   # noqa
            again = None
        if again != prev[1]:
            out = "the value decoded just before (%s...) re-encodes to %s after this decode" % (
                prev[1].hex()[:40], again.hex()[:40] if again is not None else 'an error')
    _PREV[(cls, kv)] = (r, b)
    return out


def roundtrip(cls, obj, base_kwargs, kv, kwargs=None, wire_ok=()):
    """Returns (status, detail, bytes). status in: refused, ok, decode-fails, not-equal,
    reencode-differs, reencode-fails, aliased."""
    try:
        b = shapes.encode(obj, kv)
    except shapes.Runaway:
        raise
    except Exception as e:   # noqa
        return 'refused', '%s: %s' % (type(e).__name__, str(e)[:100]), None
    try:
        r = fresh_reader(cls, obj, base_kwargs)
        r.read(cutils.BytearrayStream(b), kmip_version=kv)
    except Exception as e:   # noqa
        return 'decode-fails', '%s: %s' % (type(e).__name__, str(e)[:120]), b
    try:
        b2 = shapes.encode(r, kv)
    except shapes.Runaway:
        raise
    except Exception as e:   # noqa
        return 'reencode-fails', '%s: %s' % (type(e).__name__, str(e)[:100]), b
    if b2 != b:
        return 'reencode-differs', '%s vs %s' % (b.hex()[:80], b2.hex()[:80]), b
    changed = _prev_changed(cls, kv, r, b)
    if changed:
        return 'aliased', changed, b
    if own_eq(cls):
        try:
            eq = (r == obj)
        except Exception as e:   # noqa
            return 'not-equal', '__eq__ raised %s' % type(e).__name__, b
        if eq is False and _equal_modulo_absent_lists(obj, r):
            return 'ok', '', b      # an absent repeated field is None in one and [] in the other
        if eq is False:
            del _LOST[:]
            if kwargs is not None and _equal_modulo_undefined_fields(cls, obj, r, kwargs, base_kwargs,
                                                                      kv, b, wire_ok):
                return 'ok-version-gated', '', b
            if _LOST:
                return 'field-lost', 'the encoding omits %s although this version writes that field in ' \
                    'other contexts' % ', '.join(sorted(set(_LOST))), b
            return 'not-equal', 'decoded value != original', b
    elif kwargs is not None:
        # no __eq__: the re-encoding cannot see a field the writer drops under every version (reader
        # and writer agree on its absence) - compare the instances' data attributes one by one
        va, vb = vars(obj), vars(r)
        lost = [k for k in va if k in vb and k != 'length' and _is_data(va[k]) and _is_data(vb[k])
                and not _same_field(va[k], vb[k], kv)]
        if lost:
            gated = []
            for p_, v in kwargs.items():
                if v is None or p_ in base_kwargs:
                    continue
                o2, _ = shapes.try_construct(cls, {k: (None if k == p_ else x) for k, x in kwargs.items()})
                try:
                    if o2 is not None and shapes.encode(o2, kv) == b and _on_wire_somewhere(obj, o2):
                        gated.append(p_)
                except Exception:   # noqa
                    pass
            if gated:
                o3, _ = shapes.try_construct(cls, {k: (None if k in gated else x) for k, x in kwargs.items()})
                if o3 is not None:
                    v3 = vars(o3)
                    if all(_same_field(v3.get(k), vb.get(k), kv) for k in lost):
                        return 'ok-version-gated', '', b
            return 'field-lost', "attribute(s) %s of the original do not come back from the decode and " \
                "the encoding does not carry them" % ', '.join(sorted(lost)), b
    return 'ok', '', b


def cross_decode(cls, obj, base_kwargs, b, kd):
    """b was produced under another version. If the decoder of version kd ACCEPTS it, decoding,
    re-encoding and decoding again under kd must give the same value (and stable bytes).
    Returns None (rejected, or fine) or (status, detail)."""
    try:
        v1 = fresh_reader(cls, obj, base_kwargs)
        v1.read(cutils.BytearrayStream(b), kmip_version=kd)
    except Exception:   # noqa - not accepted: nothing is demanded
        return None
    try:
        b2 = shapes.encode(v1, kd)
    except shapes.Runaway:
        raise
    except Exception as e:   # noqa
        return 'accepted-not-reencodable', '%s: %s' % (type(e).__name__, str(e)[:100])
    try:
        v2 = fresh_reader(cls, obj, base_kwargs)
        v2.read(cutils.BytearrayStream(b2), kmip_version=kd)
        b3 = shapes.encode(v2, kd)
    except shapes.Runaway:
        raise
    except Exception as e:   # noqa
        return 'accepted-reencoding-undecodable', '%s: %s' % (type(e).__name__, str(e)[:100])
    if b3 != b2:
        return 'accepted-bytes-unstable', '%s vs %s' % (b2.hex()[:80], b3.hex()[:80])
    if own_eq(cls):
        try:
            eq = (v1 == v2)
        except Exception as e:   # noqa
            return 'accepted-not-idempotent', '__eq__ raised %s' % type(e).__name__
        if eq is False and not _equal_modulo_absent_lists(v1, v2):
            return 'accepted-not-idempotent', 'decode(encode(decode(b))) != decode(b)'
    return 'fine', ''


def _on_wire_versions(with_field, without_field):
    """The versions under which the field makes a difference to the encoding."""
    out = []
    for k2 in KV:
        a = b = None
        try:
            a = shapes.encode(with_field, k2)
        except Exception:   # noqa
            pass
        try:
            b = shapes.encode(without_field, k2)
        except Exception:   # noqa
            pass
        if (a is None) != (b is None) or (a is not None and a != b):
            out.append(k2)
    return out


def _on_wire_somewhere(with_field, without_field):
    """The field is version-gated (not silently dropped) only if SOME version writes it."""
    for k2 in KV:
        a = b = None
        try:
            a = shapes.encode(with_field, k2)
        except Exception:   # noqa
            pass
        try:
            b = shapes.encode(without_field, k2)
        except Exception:   # noqa
            pass
        if (a is None) != (b is None):
            return True     # the field decides whether this version can be encoded: the writer uses it
        if a is not None and a != b:
            return True
    return False


def _equal_modulo_absent_lists(a, b):
    try:
        va, vb = vars(a), vars(b)
    except TypeError:
        return False
    if set(va) != set(vb):
        return False
    for k in va:
        x, y = va[k], vb[k]
        if x in (None, []) and y in (None, []):
            continue
        try:
            if not (x == y):
                return False
        except Exception:   # noqa
            return False
    return True


def _equal_modulo_undefined_fields(cls, obj, decoded, kwargs, base, kv, b, wire_ok=()):
    """A field that is not defined under this KMIP version is omitted by the writer: then the
    encoding equals that of the value without the field, and the decoded value must equal THAT."""
    dropped = []
    for p, v in kwargs.items():
        if v is None or p in base:
            continue
        o2, _ = shapes.try_construct(cls, {k: (None if k == p else x) for k, x in kwargs.items()})
        if o2 is None:
            continue
        try:
            if shapes.encode(o2, kv) == b and ((p, _vkey(v)) in wire_ok or _on_wire_somewhere(obj, o2)):
                # ... unless THIS version is known to write the field in another context: then the
                # version defines it, and losing it here is a loss, not version gating
                if (p, _vkey(v), kv) in _WIRE_V.get(cls.__name__, ()):
                    _LOST.append(p)
                    continue
                dropped.append(p)
        except Exception:   # noqa
            pass
    if not dropped:
        return False
    o3, _ = shapes.try_construct(cls, {k: (None if k in dropped else x) for k, x in kwargs.items()})
    try:
        return o3 is not None and ((decoded == o3) is True or _equal_modulo_absent_lists(o3, decoded))
    except Exception:   # noqa
        return False


# ---------------------------------------------------------------------------------------------
# generic structures
# ---------------------------------------------------------------------------------------------
def check_class(name, part, sweep):
    R = registry()
    cls = R.classes[name]
    base = R._base_kwargs(name)
    wire_seen = {}      # param -> True if setting it ever changed the bytes
    wire_ok = wire_params(name)
    for label, kw in R.values(name, sweep=sweep):
        kw = copy.deepcopy(kw)      # every value gets private copies of nested candidates
        obj, err = shapes.try_construct(cls, kw)
        if obj is None:
            part.count('rejected_by_constructor')
            continue
        set_params = sorted(p for p, v in kw.items() if v is not None and p not in base)
        statuses = {}
        pending = []
        for kv in KV:
            st, detail, b = roundtrip(cls, obj, base, kv, kw, wire_ok)
            part.count('roundtrips')
            statuses[kv] = (st, detail, b)
        # encoding must not change the value: the first version encodes to the same bytes again
        first = statuses[KV[0]][2]
        if first is not None:
            try:
                again = shapes.encode(obj, KV[0])
            except Exception as e:   # noqa
                again = None
            if again != first:
                part.violation("%s|encode-not-pure|%s" % (name, _pkey(label, kw, base)),
                               "%s(%s): after being encoded under the other versions the same object "
                               "encodes differently under KMIP %s" % (
                                   name, ', '.join(set_params), VNAME[KV[0]]),
                               {'class': name, 'label': _jl(label)})
        equal_somewhere = any(v[0] in ('ok', 'ok-version-gated') for v in statuses.values())
        for kv in KV:
            st, detail, b = statuses[kv]
            if st == 'not-equal' and equal_somewhere:
                # the same value round-trips to an equal value under another version: what is lost
                # here is content this version does not define (possibly inside a nested structure)
                st = 'ok-version-gated'
                statuses[kv] = (st, detail, b)
            part.count('status_' + st)
            part.counters.setdefault('_out', set()).add((name, st))
            if st in ('decode-fails', 'not-equal', 'reencode-differs', 'reencode-fails', 'aliased', 'field-lost'):
                part.violation("%s|%s|%s" % (name, st, _pkey(label, kw, base)),
                               "%s(%s) under KMIP %s: %s (%s)" % (
                                   name, ', '.join('%s=%s' % (p, shapes.describe(kw[p]))
                                                   for p in set_params), VNAME[kv], st, detail),
                               {'class': name, 'label': _jl(label), 'version': VNAME[kv]})
        # accepted byte strings from ANOTHER version's writer (a peer speaking a different version,
        # a stored encoding): decode-encode-decode must be stable under the accepting version
        by_bytes = {}
        for kv in KV:
            if statuses[kv][2] is not None:
                by_bytes.setdefault(statuses[kv][2], []).append(kv)
        for b, srcs in by_bytes.items():
            for kd in KV:
                if kd in srcs:
                    continue
                res = cross_decode(cls, obj, base, b, kd)
                part.count('cross_version_decodes')
                if res is None:
                    continue
                part.count('cross_version_accepted')
                if res[0] != 'fine':
                    part.violation("%s|%s|%s" % (name, res[0], _pkey(label, kw, base)),
                                   "%s(%s): the KMIP %s encoding is accepted by the KMIP %s decoder, but "
                                   "%s (%s)" % (name, ', '.join('%s=%s' % (p, shapes.describe(kw[p]))
                                                               for p in set_params), VNAME[srcs[0]],
                                                VNAME[kd], res[0], res[1]),
                                   {'class': name, 'label': _jl(label), 'version': VNAME[kd],
                                    'from_version': VNAME[srcs[0]]})
        # a set field must reach the wire under at least one version
        if label[0] == 'sweep-min' and kw[label[1]] != []:
            p = label[1]
            bare, _ = shapes.try_construct(cls, base)
            has_default = bare is not None and (getattr(bare, p, None) is not None or
                                                getattr(bare, '_' + p, None) is not None)
            refused_somewhere = any(statuses[kv][2] is None for kv in KV)
            if bare is not None and not has_default and not refused_somewhere:
                changed = False
                encodable = False
                for kv in KV:
                    st, _, b = statuses[kv]
                    if b is None:
                        continue
                    encodable = True
                    try:
                        b0 = shapes.encode(bare, kv)
                    except Exception:   # noqa
                        changed = True
                        continue
                    if b0 != b:
                        changed = True
                if encodable:
                    wire_seen[p] = wire_seen.get(p, False) or changed
                    wire_seen.setdefault(('any', p), []).append((changed, shapes.describe(kw[p])))
    for p, seen in wire_seen.items():
        if isinstance(p, tuple):
            continue
        if not seen:
            part.violation("%s|field-never-on-wire|%s" % (name, p),
                           "%s: setting %s (to any of %s) never changes the encoding under any "
                           "version" % (name, p, [d for c, d in wire_seen[('any', p)]][:4]),
                           {'class': name, 'param': p})
    part.sample({'class': name, 'params': [p for p, d in R.params[name]][:8]})


_LOST = []        # fields found lost (not version-gated) by the last _equal_modulo_undefined_fields call
_WIRE = {}
_WIRE_V = {}      # class name -> {(parameter, value key, version)}: versions proven to write the field


def _vkey(v):
    """Content-based identity of a candidate value (stable across copies and processes)."""
    if isinstance(v, list):
        return ('list',) + tuple(_vkey(x) for x in v)
    if not hasattr(v, 'write'):
        return (type(v).__name__, repr(v))
    enc = []
    for kv in KV:
        try:
            enc.append(shapes.encode(v, kv).hex())
        except Exception as e:   # noqa
            enc.append('ERR:' + type(e).__name__)
    return (type(v).__name__, hash(tuple(enc)))


def wire_params(name):
    """(parameter, value) pairs proven to reach the wire: for some enumerated value-set containing
    them and some version, removing the field changes the encoding (or makes it impossible)."""
    if name in _WIRE:
        return _WIRE[name]
    R = registry()
    cls = R.classes[name]
    base = R._base_kwargs(name)
    ok = set()
    okv = _WIRE_V.setdefault(cls.__name__, set())
    for label, kw in R.values(name, sweep=True):
        if label[0] == 'lattice':
            todo = [p for p, v in kw.items() if v is not None and p not in base]
        else:
            todo = [label[1]]
        todo = [p for p in todo if not all((p, _vkey(kw[p]), kv_) in okv for kv_ in KV)]
        if not todo:
            continue
        obj, _ = shapes.try_construct(cls, kw)
        if obj is None:
            continue
        for p in todo:
            o2, _ = shapes.try_construct(cls, {k: (None if k == p else x) for k, x in kw.items()})
            if o2 is None:
                continue
            vs = _on_wire_versions(obj, o2)
            if vs:
                ok.add((p, _vkey(kw[p])))
                for kv_ in vs:
                    okv.add((p, _vkey(kw[p]), kv_))
    _WIRE[name] = ok
    return ok


def _pkey(label, kw, base):
    if label[0] == 'lattice':
        return 'lattice:' + ('+'.join(label[1]) or '-')
    p = label[1]
    return '%s:%s=%s' % (label[0], p, _vclass(kw[p]))


def _vclass(v):
    if hasattr(v, 'write'):
        return type(v).__name__
    if isinstance(v, list):
        return 'list%d' % len(v)
    if isinstance(v, bool):
        return repr(v)
    if isinstance(v, int):
        return 'int:%s' % ('0' if v == 0 else 'neg' if v < 0 else 'pos' if v < 2 ** 31 else 'big')
    if isinstance(v, str):
        return 'str:%s' % ('empty' if v == '' else 'ascii' if v.isascii() else 'nonascii')
    if isinstance(v, bytes):
        return 'bytes:%d' % (len(v) % 8)
    return shapes.describe(v)


def _jl(label):
    return [list(x) if isinstance(x, tuple) else x for x in label]


# ---------------------------------------------------------------------------------------------
# primitives: hand-written boundary menus, compared with the independent implementation
# ---------------------------------------------------------------------------------------------
def primitive_cases():
    out = []
    for v in [-2 ** 31, -1, 0, 1, 255, 256, 2 ** 31 - 1]:
        out.append(('Integer', primitives.Integer, v, ttlv.INTEGER))
    for v in [-2 ** 63, -1, 0, 1, 2 ** 31, 2 ** 32, 2 ** 63 - 1]:
        out.append(('LongInteger', primitives.LongInteger, v, ttlv.LONG_INTEGER))
        out.append(('DateTime', primitives.DateTime, v, ttlv.DATE_TIME))
    big = list(range(-300, 301)) + [2 ** 63 - 1, -(2 ** 63 - 1), 2 ** 63, -2 ** 63, 2 ** 64, -2 ** 64,
                                    2 ** 64 - 1, -(2 ** 64 - 1), 2 ** 127, -2 ** 127, 2 ** 128 + 1,
                                    2 ** 128 - 1, -(2 ** 128)]
    for v in big:
        out.append(('BigInteger', primitives.BigInteger, v, ttlv.BIG_INTEGER))
    for v in [0, 1, 2 ** 31, 2 ** 32 - 1, 2 ** 32]:
        out.append(('Interval', primitives.Interval, v, ttlv.INTERVAL))
    for v in [False, True]:
        out.append(('Boolean', primitives.Boolean, v, ttlv.BOOLEAN))
    for n in range(0, 18):
        out.append(('TextString', primitives.TextString, 'a' * n, ttlv.TEXT_STRING))
    for v in [' ', 'é', '日本', '\U0001F511', 'a\x00b']:
        out.append(('TextString', primitives.TextString, v, ttlv.TEXT_STRING))
    for n in range(0, 18):
        for pat in (b'\x00', b'\xff', None):
            v = bytes(range(1, n + 1)) if pat is None else pat * n
            out.append(('ByteString', primitives.ByteString, v, ttlv.BYTE_STRING))
    for ec in (enums.CryptographicAlgorithm, enums.ObjectType, enums.State, enums.ResultReason,
               enums.Operation, enums.BlockCipherMode):
        for m in ec:
            out.append(('Enumeration:' + ec.__name__, ec, m, ttlv.ENUMERATION))
    return out


def check_primitives(part):
    tags = [T.DEFAULT, T.ACTIVATION_DATE, T.CUSTOM_ATTRIBUTE]
    for name, cls, v, typ in primitive_cases():
        for tag in tags:
            if name.startswith('Enumeration'):
                mk = lambda: primitives.Enumeration(cls, v, tag)            # noqa: E731
                rd = lambda: primitives.Enumeration(cls, None, tag)         # noqa: E731
                ev = v.value
            else:
                mk = lambda: cls(v, tag)                                    # noqa: E731
                rd = lambda: cls(tag=tag)                                   # noqa: E731
                ev = v
            ctx = {'primitive': name, 'value': repr(v)[:40], 'tag': tag.name}
            vk = _vclass(v) if not name.startswith('Enumeration') else 'member'
            try:
                obj = mk()
            except (TypeError, ValueError):
                part.count('rejected_by_constructor')
                continue
            for kv in KV:
                part.count('roundtrips')
                try:
                    b = shapes.encode(obj, kv)
                except Exception as e:    # noqa
                    part.violation("%s|encode-fails|%s" % (name.split(':')[0], vk),
                                   "%s(%r) constructs but cannot be encoded: %s: %s" % (
                                       name, v, type(e).__name__, e), ctx)
                    break
                exp = ttlv.encode((tag.value, typ, ev))
                if b != exp and not (typ == ttlv.BIG_INTEGER and _same_bigint(b, exp)):
                    part.violation("%s|not-spec-encoding|%s" % (name.split(':')[0], vk),
                                   "%s(%r): library emits %s, the TTLV definition gives %s" % (
                                       name, v, b.hex(), exp.hex()), ctx)
                    break
                try:
                    r = rd()
                    r.read(cutils.BytearrayStream(b), kmip_version=kv)
                except Exception as e:    # noqa
                    part.violation("%s|decode-fails|%s" % (name.split(':')[0], vk),
                                   "%s(%r) encodes to %s but does not decode: %s: %s" % (
                                       name, v, b.hex()[:60], type(e).__name__, e), ctx)
                    break
                if r.value != v or shapes.encode(r, kv) != b:
                    part.violation("%s|not-equal|%s" % (name.split(':')[0], vk),
                                   "%s(%r) decodes to %r" % (name, v, r.value), ctx)
                    break
                part.count('status_ok')
    part.sample({'primitive_cases': len(primitive_cases()), 'tags': [t.name for t in tags]})


def _same_bigint(b, exp):
    try:
        return ttlv.parse(b, strict=True)[2] == ttlv.parse(exp)[2]
    except ttlv.TTLVError:
        return False


# ---------------------------------------------------------------------------------------------
# whole messages
# ---------------------------------------------------------------------------------------------
def request_items():
    E = enums
    return {
        'create': W.p_create(), 'create_key_pair': W.p_create_key_pair(**W.rsa_pair_attrs()),
        'register': W.p_register(W.pie_symmetric(), W.common_attrs(names=['n'])),
        'register_cert': W.p_register(W.pie_certificate()),
        'register_split': W.p_register(W.pie_split()),
        'get': W.p_get('1'), 'get_wrapped': W.p_get('1', wrapping_spec=W.wrapping_spec('2')),
        'get_noid': W.p_get(), 'get_attributes': W.p_get_attributes('1', ['Name', 'State']),
        'get_attribute_list': W.p_get_attribute_list('1'), 'activate': W.p_activate('1'),
        'activate_noid': W.p_activate(), 'revoke': W.p_revoke('1'), 'revoke_noid': W.p_revoke(),
        'revoke_dated': W.p_revoke('1', E.RevocationReasonCode.KEY_COMPROMISE, 'm', 5),
        'destroy': W.p_destroy('1'), 'destroy_noid': W.p_destroy(),
        'locate': W.p_locate([W.attr(W.AT.NAME, 'n')], 2, 1), 'locate_empty': W.p_locate(),
        'query': W.p_query(list(E.QueryFunction)[:3]), 'discover': W.p_discover([(1, 2), (2, 0)]),
        'discover_empty': W.p_discover(), 'encrypt': W.p_encrypt('1', iv=b'\x00' * 16, aad=b'a'),
        'decrypt': W.p_decrypt('1', tag=b'\x01' * 16), 'sign': W.p_sign('1'),
        'signature_verify': W.p_signature_verify('1'), 'mac': W.p_mac('1'),
        'mac_noid': W.p_mac(), 'derive_key': W.p_derive_key(['1', '2']),
        'modify_1x': W.p_modify_attribute_1x('1', W.AT.NAME, 'x', 0),
        'delete_1x': W.p_delete_attribute_1x('1', 'Name', 1),
        'set_20': W.p_set_attribute('1', W.AT.SENSITIVE, True),
        'modify_20': W.p_modify_attribute_20('1', W.AT.NAME, 'x', 'n'),
        'delete_20_ref': W.p_delete_attribute_20('1', W.AT.NAME),
        'delete_20_cur': W.p_delete_attribute_20('1', W.AT.NAME, 'n'),
    }


HEADERS = [
    {}, {'max_response_size': 4096}, {'async_indicator': False},
    {'error_option': enums.BatchErrorContinuationOption.CONTINUE, 'order_option': True},
    {'time_stamp': W.T0}, {'batch_ids': 'all'},
    {'max_response_size': 1, 'async_indicator': True, 'time_stamp': 0,
     'error_option': enums.BatchErrorContinuationOption.UNDO, 'order_option': False},
]


def check_requests(part):
    items = request_items()
    for name, item in items.items():
        for v, kv in zip(W.VERSIONS, KV):
            for h in (HEADERS if name in ('create', 'get', 'locate') else HEADERS[:2]):
                part.count('roundtrips')
                try:
                    msg = W.build_request(v, [item], **h)
                    b = shapes.encode(msg, kv)
                except Exception as e:   # noqa
                    part.count('status_refused')
                    part.counters.setdefault('_out', set()).add(('req:' + name, 'refused'))
                    continue
                ctx = {'message': 'request', 'item': name, 'version': VNAME[kv], 'header': sorted(h)}
                st, detail = _message_roundtrip(messages.RequestMessage, b, kv)
                part.counters.setdefault('_out', set()).add(('req:' + name, st))
                part.count('status_' + st)
                if st != 'ok':
                    part.violation("RequestMessage|%s|%s" % (st, name),
                                   "request %s under KMIP %s (header %s): %s (%s)" % (
                                       name, VNAME[kv], sorted(h), st, detail), ctx)
    # two-item batches
    for a, b_ in [('create', 'get_noid'), ('locate', 'destroy')]:
        for v, kv in zip(W.VERSIONS, KV):
            msg = W.build_request(v, [items[a], items[b_]])
            try:
                b = shapes.encode(msg, kv)
            except Exception:   # noqa
                continue
            st, detail = _message_roundtrip(messages.RequestMessage, b, kv)
            part.count('roundtrips')
            if st != 'ok':
                part.violation("RequestMessage|%s|batch" % st, "batch %s+%s under %s: %s" % (
                    a, b_, VNAME[kv], detail), {'message': 'request', 'item': a + '+' + b_})
    part.sample({'request_items': sorted(items)[:10], 'headers': len(HEADERS)})


def _message_roundtrip(cls, b, kv):
    try:
        m = cls()
        m.read(cutils.BytearrayStream(b), kmip_version=kv)
    except Exception as e:   # noqa
        return 'decode-fails', '%s: %s' % (type(e).__name__, str(e)[:120])
    try:
        b2 = shapes.encode(m, kv)
    except Exception as e:   # noqa
        return 'reencode-fails', '%s: %s' % (type(e).__name__, str(e)[:120])
    if b2 != b:
        t1, t2 = ttlv.render(ttlv.parse(b, strict=False)), None
        try:
            t2 = ttlv.render(ttlv.parse(b2, strict=False))
        except ttlv.TTLVError:
            pass
        return 'reencode-differs', _first_diff(t1, t2)
    return 'ok', ''


def _first_diff(a, b, path=''):
    if b is None:
        return 're-encoding is not parsable'
    if a[0] != b[0]:
        return '%s: tag %s vs %s' % (path, a[0], b[0])
    if isinstance(a[1], list) and isinstance(b[1], list):
        for i in range(max(len(a[1]), len(b[1]))):
            if i >= len(a[1]):
                return '%s/%s: extra item %s after re-encoding' % (path, a[0], b[1][i][0])
            if i >= len(b[1]):
                return '%s/%s: item %s lost after re-encoding' % (path, a[0], a[1][i][0])
            d = _first_diff(a[1][i], b[1][i], path + '/' + a[0])
            if d:
                return d
        return ''
    return '' if a[1] == b[1] else '%s/%s: %s vs %s' % (path, a[0], str(a[1])[:40], str(b[1])[:40])


def check_responses(part):
    """Accepted byte strings: everything a real server emits for a representative history."""
    pol = W.default_policies({'open': W.OPEN_POLICY})
    W.use_rsa_pool()
    n = 0
    for v, kv in zip(W.VERSIONS, KV):
        w = W.World(policies=pol)
        try:
            W.CLOCK.now = W.T0
            MASK = [W.attr(W.AT.CRYPTOGRAPHIC_USAGE_MASK, list(W.CUM))]
            script = [
                W.p_register(W.pie_symmetric(), MASK + W.common_attrs(names=['a', 'b'], groups=['g'],
                                                                      appinfo=[('n', 'd')])),
                W.p_activate('1'), W.p_create(), W.p_create_key_pair(**W.rsa_pair_attrs()),
                W.p_register(W.pie_certificate()), W.p_register(W.pie_secret()),
                W.p_register(W.pie_opaque()), W.p_register(W.pie_split()),
                W.p_register(W.pie_public()), W.p_register(W.pie_private(), MASK),
            ] + [W.p_get(str(i)) for i in range(1, 11)] + \
                [W.p_get_attributes(str(i)) for i in range(1, 11)] + \
                [W.p_get_attribute_list(str(i)) for i in range(1, 4)] + [
                W.p_get('2', wrapping_spec=W.wrapping_spec('1')), W.p_locate(), W.p_query(
                    list(enums.QueryFunction)), W.p_discover(), W.p_encrypt('1', iv=b'\x00' * 16),
                W.p_decrypt('1'), W.p_mac('1'), W.p_derive_key(['1']), W.p_get('999'),
                W.p_modify_attribute_1x('1', W.AT.NAME, 'x', 0), W.p_delete_attribute_1x('1', 'Name', 0),
                W.p_activate('10'), W.p_sign('10'), W.p_revoke('1'), W.p_destroy('1'),
            ]
            for item in script:
                try:
                    data = w.send_bytes(W.encode_request(W.build_request(v, [item])))
                except Exception:   # noqa  (library refuses to encode this item for this version)
                    continue
                n += 1
                part.count('roundtrips')
                st, detail = _message_roundtrip(messages.ResponseMessage, data, kv)
                part.counters.setdefault('_out', set()).add(('resp:' + item[0].name, st))
                part.count('status_' + st)
                if st != 'ok':
                    part.violation("ResponseMessage|%s|%s" % (st, item[0].name),
                                   "response to %s under KMIP %s: %s (%s)" % (
                                       item[0].name, VNAME[kv], st, detail),
                                   {'message': 'response', 'operation': item[0].name,
                                    'version': VNAME[kv]})
        finally:
            w.close()
    part.sample({'server_responses_round_tripped': n})



# ---------------------------------------------------------------------------------------------
# constructed headers, batch items and messages (classes without __eq__: compared field by field)
# ---------------------------------------------------------------------------------------------
def _same_field(a, b, kv):
    if a is None or b is None:
        return (a is None and b is None) or (a in (None, []) and b in (None, []))
    if isinstance(a, (list, tuple)):
        return isinstance(b, (list, tuple)) and len(a) == len(b) and all(
            _same_field(x, y, kv) for x, y in zip(a, b))
    if isinstance(a, primitives.Base):
        if not isinstance(b, primitives.Base):
            return False
        try:
            return shapes.encode(a, kv) == shapes.encode(b, kv)
        except Exception:   # noqa
            return False
    return a == b


def _is_data(x):
    return x is None or isinstance(x, (primitives.Base, list, tuple, str, bytes, int, bool, enums.enum.Enum))


def _fieldwise_roundtrip(cls, kwargs, kv):
    """(status, detail). A constructor field set by the caller must come back from the decode; a field
    that does not is 'version-gated' only when some KMIP version writes it."""
    try:
        obj = cls(**kwargs)
        b = shapes.encode(obj, kv)
    except Exception as e:   # noqa
        return 'refused', '%s: %s' % (type(e).__name__, str(e)[:100])
    try:
        r = cls()
        r.read(cutils.BytearrayStream(b), kmip_version=kv)
    except Exception as e:   # noqa
        return 'decode-fails', '%s: %s' % (type(e).__name__, str(e)[:120])
    try:
        b2 = shapes.encode(r, kv)
    except Exception as e:   # noqa
        return 'reencode-fails', '%s: %s' % (type(e).__name__, str(e)[:100])
    if b2 != b:
        return 'reencode-differs', '%s vs %s' % (b.hex()[:80], b2.hex()[:80])
    gated = False
    for f, v in kwargs.items():
        if _same_field(getattr(obj, f), getattr(r, f), kv):
            continue
        if getattr(r, f) in (None, []):
            without = cls(**{k: (None if k == f else x) for k, x in kwargs.items()})
            if _on_wire_somewhere(obj, without):
                gated = True
                continue
            return 'field-lost', "field '%s' is never written (no KMIP version's encoding carries it)" % f
        return 'not-equal', "field '%s' decodes to another value" % f
    return ('ok-version-gated' if gated else 'ok'), ''


def _lattice(menu):
    keys = list(menu)
    for combo in itertools.product(*[menu[k] for k in keys]):
        yield dict(zip(keys, combo))


def message_part_cases(v):
    """(class, label, kwargs) for protocol version v = (major, minor)."""
    from kmip.core.messages import contents as C
    from kmip.core import objects as cobjects
    E = enums
    pv = C.ProtocolVersion(*v)
    up = cobjects.Credential(E.CredentialType.USERNAME_AND_PASSWORD,
                             cobjects.UsernamePasswordCredential('user', 'pw'))
    dev = cobjects.Credential(E.CredentialType.DEVICE, cobjects.DeviceCredential(
        device_serial_number='s', password='p', device_identifier='d', network_identifier='n',
        machine_identifier='m', media_identifier='e'))
    att = cobjects.Credential(E.CredentialType.ATTESTATION, cobjects.AttestationCredential(
        nonce=cobjects.Nonce(nonce_id=b'\x01', nonce_value=b'\x02' * 9),
        attestation_type=E.AttestationType.TPM_QUOTE, attestation_measurement=b'\xff'))
    for kw in _lattice({
            'server_hashed_password': [None, b'\x01' * 8, b''],
            'server_correlation_value': [None, C.ServerCorrelationValue('scv')]}):
        yield messages.ResponseHeader, 'response-header', dict(
            kw, protocol_version=pv, time_stamp=C.TimeStamp(W.T0), batch_count=C.BatchCount(1))
    for kw in _lattice({
            'maximum_response_size': [None, C.MaximumResponseSize(4096)],
            'asynchronous_indicator': [None, C.AsynchronousIndicator(False), C.AsynchronousIndicator(True)],
            'authentication': [None, C.Authentication([up]), C.Authentication([up, dev]),
                               C.Authentication([att])],
            'batch_error_cont_option': [None, C.BatchErrorContinuationOption(
                E.BatchErrorContinuationOption.CONTINUE)],
            'batch_order_option': [None, C.BatchOrderOption(True)],
            'time_stamp': [None, C.TimeStamp(0)]}):
        yield messages.RequestHeader, 'request-header', dict(kw, protocol_version=pv,
                                                            batch_count=C.BatchCount(2))
    OP = E.Operation
    from kmip.core.messages import payloads as P
    resp_payloads = {
        OP.ACTIVATE: lambda: P.ActivateResponsePayload(attributes.UniqueIdentifier('1')),
        OP.DESTROY: lambda: P.DestroyResponsePayload(attributes.UniqueIdentifier('1')),
        OP.CREATE: lambda: P.CreateResponsePayload(E.ObjectType.SYMMETRIC_KEY, '1'),
        OP.LOCATE: lambda: P.LocateResponsePayload(unique_identifiers=['1', '2']),
    }
    for op, mk in resp_payloads.items():
        for kw in _lattice({
                'operation': [C.Operation(op)],
                'unique_batch_item_id': [None, C.UniqueBatchItemID(b'\x01'), C.UniqueBatchItemID(b'')],
                'result_status': [C.ResultStatus(s) for s in E.ResultStatus],
                'result_reason': [None, C.ResultReason(E.ResultReason.ITEM_NOT_FOUND)],
                'result_message': [None, C.ResultMessage(''), C.ResultMessage('café ☃')],
                'async_correlation_value': [None, C.AsynchronousCorrelationValue(b'\x07' * 3)],
                'response_payload': [None, 'payload'],
                'message_extension': [None]}):
            if kw['response_payload'] == 'payload':
                kw['response_payload'] = mk()
            yield messages.ResponseBatchItem, 'response-item:' + op.name, kw
    for kw in _lattice({
            'operation': [None],
            'unique_batch_item_id': [None, C.UniqueBatchItemID(b'\x01')],
            'result_status': [C.ResultStatus(s) for s in E.ResultStatus],
            'result_reason': [None, C.ResultReason(E.ResultReason.GENERAL_FAILURE)],
            'result_message': [None, C.ResultMessage('m')]}):
        yield messages.ResponseBatchItem, 'response-item:no-operation', kw
    items = request_items()
    for name in ('create', 'get', 'get_noid', 'locate', 'destroy_noid', 'set_20'):
        op, payload = items[name][0], items[name][1]
        for kw in _lattice({
                'operation': [C.Operation(op)],
                'unique_batch_item_id': [None, C.UniqueBatchItemID(b'\x01'), C.UniqueBatchItemID(b'')],
                'request_payload': [payload],
                'ephemeral': [None, True, False]}):
            yield messages.RequestBatchItem, 'request-item:' + name, kw


def check_message_parts(part):
    for v, kv in zip(W.VERSIONS, KV):
        for cls, label, kw in message_part_cases(v):
            part.count('roundtrips')
            part.count('message_part_cases')
            st, detail = _fieldwise_roundtrip(cls, kw, kv)
            part.count('status_' + st)
            part.counters.setdefault('_out', set()).add(('part:' + label, st))
            if st not in ('ok', 'ok-version-gated', 'refused'):
                present = sorted(k for k, x in kw.items() if x is not None)
                bad = detail.split("'")[1] if "'" in detail else ''
                part.violation("%s|%s|%s|%s" % (cls.__name__, st, label.split(':')[0], bad),
                               "%s (%s) under KMIP %s with %s: %s (%s)" % (
                                   cls.__name__, label, VNAME[kv], present, st, detail),
                               {'message_part': label, 'version': VNAME[kv], 'present': present,
                                'status': st})


def check_attribute_names(part):
    """A refusal to encode is tolerated for structures in general (which fields a version defines is not
    modelled per field) - but not for the standard attribute names: a name list naming an attribute
    the KMIP version defines (mc/ref/versions.py) must be encodable under that version and come back."""
    from mc.ref import versions as V
    from kmip.core.messages import payloads as P
    from kmip.core import objects as cobjects
    # the library's own name <-> tag table (84 names; the AttributeType enumeration has 47 of them): a
    # name my reference does not classify is one KMIP 2.0 added - demanded under 2.0 only
    names = [e[0] for e in enums.attribute_name_tag_table]
    makers = {
        'GetAttributesRequestPayload': lambda n: P.GetAttributesRequestPayload('1', [n]),
        'GetAttributeListResponsePayload': lambda n: P.GetAttributeListResponsePayload('1', [n]),
        'GetAttributesRequestPayload+Name': lambda n: P.GetAttributesRequestPayload('1', ['Name', n]),
    }
    for v, kv in zip(W.VERSIONS, KV):
        for n in names:
            st = V.attribute_status(n, v)
            if st == 'undefined' or (st == 'unknown' and v < (2, 0)):
                continue
            for cname, mk in makers.items():
                part.count('roundtrips')
                part.count('attribute_name_cases')
                cls = getattr(P, cname.split('+')[0])
                try:
                    obj = mk(n)
                    b = shapes.encode(obj, kv)
                    r = cls()
                    r.read(cutils.BytearrayStream(b), kmip_version=kv)
                    ok = list(r.attribute_names) == list(obj.attribute_names) and shapes.encode(r, kv) == b
                    why = 'decodes to %r' % (r.attribute_names,)
                except Exception as e:   # noqa
                    ok, why = False, '%s: %s' % (type(e).__name__, str(e)[:100])
                part.count('status_ok' if ok else 'status_not-equal')
                part.counters.setdefault('_out', set()).add(('names:' + cname, ok))
                if not ok:
                    part.violation("%s|attribute-name|%s" % (cname.split('+')[0], n),
                                   "%s naming '%s' (defined under KMIP %s) under KMIP %s: %s" % (
                                       cname, n, VNAME[kv], VNAME[kv], why),
                                   {'attribute_names': True, 'name': n, 'version': VNAME[kv]})
        if v >= (2, 0):
            for n in names:
                part.count('roundtrips')
                try:
                    t = enums.convert_attribute_name_to_tag(n)
                    back = enums.convert_attribute_tag_to_name(t)
                    ok, why = back == n, 'tag %s names %r' % (t, back)
                except Exception as e:   # noqa
                    ok, why = False, '%s: %s' % (type(e).__name__, str(e)[:100])
                part.count('status_ok' if ok else 'status_not-equal')
                if not ok:
                    part.violation("name-tag-table|%s" % n, "attribute name '%s' <-> tag: %s" % (n, why),
                                   {'attribute_names': True, 'name': n})


# ---------------------------------------------------------------------------------------------
def _worker(task):
    kind, arg, sweep = task
    part = Part()
    import logging
    logging.disable(logging.CRITICAL)
    shapes.cap_streams()
    try:
        if kind == 'classes':
            for name in arg:
                try:
                    check_class(name, part, sweep)
                except shapes.Runaway as e:
                    part.violation("%s|runaway-encoding" % name,
                                   "%s: %s although every menu value is small - the encoding keeps "
                                   "growing from one value to the next (state shared between "
                                   "values); rest of this class skipped" % (name, e),
                                   {'class': name, 'label': ['runaway']})
        elif kind == 'primitives':
            check_primitives(part)
            check_hand_attributes(part)
        elif kind == 'requests':
            check_requests(part)
        elif kind == 'responses':
            check_responses(part)
        elif kind == 'message_parts':
            check_message_parts(part)
        elif kind == 'attribute_names':
            check_attribute_names(part)
    finally:
        logging.disable(logging.NOTSET)
    out = part.as_dict()
    out['out'] = sorted(part.counters.pop('_out', set()))
    return out


# cross-field dependencies: Attribute (value class depends on the name: hand list instead); the
# headers (their protocol_version field selects the version the reader uses: whole messages instead)
SKIP_GENERIC = {'Attribute', 'RequestHeader', 'ResponseHeader'}


def structure_names():
    R = registry()
    return [n for n in R.classes if n.split('.')[-1] not in shapes.PRIMITIVES
            and n.split('.')[-1] not in shapes.MESSAGE_LEVEL and n not in SKIP_GENERIC]


def check_hand_attributes(part):
    R = registry()
    from kmip.core import objects as cobjects
    # decoding one value must not change a value decoded before (decoded values sharing state)
    for kv in KV:
        decoded = []
        for a in R.hand_attrs:
            try:
                b = shapes.encode(a, kv)
                r = cobjects.Attribute()
                r.read(cutils.BytearrayStream(b), kmip_version=kv)
            except Exception:   # noqa - judged by the round trip below
                continue
            decoded.append((a, b, r))
        for a, b, r in decoded:
            part.count('aliasing_checks')
            try:
                again = shapes.encode(r, kv)
            except Exception as e:   # noqa
                again = repr(e).encode()
            if again != b:
                part.violation("Attribute|decoded-value-changed-later|%s" % a.attribute_name,
                               "Attribute(%s) under KMIP %s: the value decoded from %s re-encodes to %s after "
                               "OTHER attributes were decoded" % (a.attribute_name, VNAME[kv], b.hex()[:60],
                                                                  again.hex()[:60]),
                               {'attribute': str(a.attribute_name), 'aliasing': True})
    for a in R.hand_attrs:
        for kv in KV:
            st, detail, b = roundtrip(cobjects.Attribute, a, {}, kv)
            part.count('roundtrips')
            part.count('status_' + st)
            part.counters.setdefault('_out', set()).add(('Attribute:' + str(a.attribute_name), st))
            if st not in ('ok', 'refused'):
                part.violation("Attribute|%s|%s" % (st, a.attribute_name),
                               "Attribute(%s) under KMIP %s: %s (%s)" % (
                                   a.attribute_name, VNAME[kv], st, detail),
                               {'attribute': str(a.attribute_name)})


def run(tier, seed):
    rep = Reporter('C01', 'exploration', tier, seed)
    names = structure_names()
    n = 28
    tasks = [('classes', names[i::n], True) for i in range(n)]
    tasks += [('primitives', None, True), ('requests', None, True), ('responses', None, True),
              ('message_parts', None, True), ('attribute_names', None, True)]
    outs = set()
    for part in pmap(_worker, tasks):
        outs.update(tuple(o) for o in part.pop('out', []))
        rep.merge(part)
    rt = rep.counters.get('roundtrips', 0)
    ok = rep.counters.get('status_ok', 0) + rep.counters.get('status_ok-version-gated', 0)
    if ok < 20000 or len(outs) < 150:
        rep.harness_error("vacuous: %d successful round trips, %d outcome classes" % (ok, len(outs)))
    return rep.finish(dict(
        evaluations=rt, distinct_nontrivial=len(outs),
        rule="a case is one (value, KMIP version) round trip; values: per class the presence lattice "
             "over its constructor parameters (each present field at its first admissible value; all "
             "2^n subsets for n <= 10, else subsets of size 0,1,2,n-1,n) and a sweep of every "
             "parameter through every admissible candidate with the other fields once absent and "
             "once full; primitives through hand-written boundary menus under three tags; one "
             "request message per operation/shape x header variants; every response a real server "
             "emitted for a 52-request history; plus, as accepted byte strings, every distinct encoding "
             "offered to the decoder of every OTHER version (cross_version_decodes) and, where accepted "
             "(cross_version_accepted), decoded, re-encoded and decoded again. distinct_nontrivial = distinct (class or message "
             "kind, outcome) pairs",
        classes=len(names), successful_roundtrips=ok,
        cross_version_decodes=rep.counters.get('cross_version_decodes', 0),
        cross_version_accepted=rep.counters.get('cross_version_accepted', 0),
        refused_encodings=rep.counters.get('status_refused', 0),
        rejected_by_constructor=rep.counters.get('rejected_by_constructor', 0),
        deviation_bound_completed=1, exhaustive=False,
    ), assumptions=[
        "the value universe is what the constructors accept from a typed candidate menu; "
        "parameters without validation take the class their reader instantiates",
        "a refusal to encode (exception) is accepted for structures, because which fields a KMIP "
        "version defines is not modelled per field here; it is a violation for the primitives",
        "classes without __eq__ are compared through their re-encoding",
    ])


def replay(doc):
    part = Part()
    import logging
    logging.disable(logging.CRITICAL)
    try:
        if 'class' in doc:
            check_class(doc['class'], part, True)
        elif 'primitive' in doc:
            check_primitives(part)
        elif doc.get('message') == 'request':
            check_requests(part)
        elif 'message_part' in doc:
            check_message_parts(part)
        elif 'attribute_names' in doc:
            check_attribute_names(part)
        elif 'attribute' in doc:
            check_hand_attributes(part)
        else:
            check_responses(part)
    finally:
        logging.disable(logging.NOTSET)
    v = part.violations
    return bool(v), '\n'.join("%s: %s" % (k, t) for k, t, _ in v[:30]) or 'no violation'
