"""C12 - the session answers any bytes safely, once, and keeps going.

Fault enumeration at the session seam: the real KmipSession.run() is driven on a fake connection
that delivers a byte stream under an explicit recv() chunking. Enumerated: (i) every chunking of
small frames and 0-3 short-read deviations on real requests, every truncation point; (ii) every
single-point mutation at every TTLV node of a corpus of valid requests (grammar-aware mutator on
the independent TTLV tree); (iii) tiny frames; (iv) bad^k.good sequences; (v) maximum response size
menus. Oracle: one well-formed response per completely framed request; INVALID_MESSAGE, engine not
entered and store unchanged when the library's decoder rejects the frame; run() returns normally;
a following valid request is answered as on a fresh connection.
"""
import itertools
import struct
import time

from mc import world as W
from mc.world import enums
from mc.ref import ttlv
from mc.report import Reporter, Part
from mc.par import pmap
from checks import c02_wellformed as c02

E = enums
RR = E.ResultReason
T = E.Tags
W.use_rsa_pool()


# ---------------------------------------------------------------------------------------------
# store, corpus
# ---------------------------------------------------------------------------------------------
_BASE = None


def base():
    global _BASE
    if _BASE is None:
        W.CLOCK.now = W.T0
        w = W.World()
        MASK = [W.attr(W.AT.CRYPTOGRAPHIC_USAGE_MASK, list(W.CUM))]
        w.do((1, 4), W.p_register(W.pie_symmetric(), MASK + W.common_attrs(names=['k'])))   # 1
        w.do((1, 4), W.p_activate('1'))
        w.do((1, 4), W.p_register(W.pie_secret(), W.common_attrs(names=['s'])))              # 2
        _BASE = w
    return _BASE


def corpus(tier):
    items = {
        'get': lambda: W.p_get('1'),
        'create': lambda: W.p_create(),
        'locate': lambda: W.p_locate([W.attr(W.AT.NAME, 'k')], 5, 0),
        'get_attributes': lambda: W.p_get_attributes('1', ['Name', 'State']),
        'register': lambda: W.p_register(W.pie_secret(), W.common_attrs(names=['x'])),
        'encrypt': lambda: W.p_encrypt('1', iv=b'\x00' * 16),
        'destroy': lambda: W.p_destroy('2'),
        'query': lambda: W.p_query(),
        'modify': lambda: W.p_modify_attribute_1x('1', W.AT.NAME, 'r', 0),
        'revoke': lambda: W.p_revoke('1'),
        'batch': lambda: [W.p_create(), W.p_get()],
        'get_attributes_none_set': lambda: W.p_get_attributes('1', ['Cryptographic Parameters']),
    }
    if tier == 'thorough':
        items.update({
            'create_key_pair': lambda: W.p_create_key_pair(**W.rsa_pair_attrs()),
            'derive_key': lambda: W.p_derive_key(['1']),
            'get_wrapped': lambda: W.p_get('2', wrapping_spec=W.wrapping_spec('1')),
            'mac': lambda: W.p_mac('1'), 'sign': lambda: W.p_sign('1'),
            'discover': lambda: W.p_discover([(1, 2)]),
            'delete_attribute': lambda: W.p_delete_attribute_1x('1', 'Name', 0),
            'activate': lambda: W.p_activate('2'),
            'decrypt': lambda: W.p_decrypt('1'),
            'signature_verify': lambda: W.p_signature_verify('1'),
            'get_attribute_list': lambda: W.p_get_attribute_list('1'),
        })
    versions = [(1, 2), (2, 0)] if tier == 'quick' else W.VERSIONS
    out = []
    for name, b in items.items():
        for v in versions:
            try:
                it = b()
                hdr = {'max_response_size': 4096, 'time_stamp': W.T0 + 50,
                       'error_option': E.BatchErrorContinuationOption.STOP} if name == 'get' else {}
                out.append(('%s/%d.%d' % (name, v[0], v[1]),
                            W.encode_request(W.build_request(v, it if isinstance(it, list) else [it], **hdr))))
            except Exception:   # noqa
                continue
    return out


PROBE = None


def probe_frame():
    global PROBE
    if PROBE is None:
        PROBE = W.encode_request(W.build_request((1, 2), [W.p_get_attributes('2', ['Name'])]))
    return PROBE


# ---------------------------------------------------------------------------------------------
# grammar-aware mutations
# ---------------------------------------------------------------------------------------------
def _fix_outer(b):
    """Make the top-level TTLV length consistent with the number of bytes present."""
    if len(b) < 8:
        return b
    return b[:4] + struct.pack('!I', (len(b) - 8) & 0xFFFFFFFF) + b[8:]


def mutations(frame):
    """Yield (label, bytes). Labels are stable classes (node kind + mutation kind)."""
    tree = ttlv.parse(frame)
    idx = ttlv.index(frame)
    for n in idx:
        depth = len(n['path'])
        tname = _tagname(n['tag'])
        where = '%s@d%d' % (tname, depth)
        s, vs, ve, e = n['start'], n['value_start'], n['value_end'], n['end']
        # --- truncations (inner lengths then overrun; the outer length is made consistent)
        for cut, cl in ((s, 'start'), (vs, 'after-header'), ((vs + ve) // 2, 'mid-value')):
            if 8 <= cut < len(frame):
                yield 'truncate-%s|%s' % (cl, where), _fix_outer(frame[:cut])
        # --- length field
        for newlen, ll in ((0, '0'), (n['length'] - 1, '-1'), (n['length'] + 1, '+1'),
                           (n['length'] + 8, '+8'), (2 ** 31, '2^31'), (2 ** 32 - 1, '2^32-1')):
            if newlen < 0 or newlen == n['length']:
                continue
            m = frame[:s + 4] + struct.pack('!I', newlen) + frame[s + 8:]
            if depth == 1:
                # the outer length IS the framing: keep it only where it still frames the bytes we send
                continue
            yield 'length=%s|%s' % (ll, where), m
        # --- type byte
        for nt in (1, 2, 3, 4, 5, 6, 7, 8, 9, 10, 0, 11, 255):
            if nt != n['type']:
                yield 'type=%d|%s' % (nt, where), frame[:s + 3] + bytes([nt]) + frame[s + 4:]
        # --- tag
        sib = [x for x in idx if x['path'][:-1] == n['path'][:-1] and x['tag'] != n['tag']]
        for nt, tl in ([(sib[0]['tag'], 'sibling')] if sib else []) + [(0x42FFFF, 'unknown'), (0, 'zero'),
                                                                     (0x540001, 'extension')]:
            yield 'tag=%s|%s' % (tl, where), nt.to_bytes(3, 'big').join([frame[:s], frame[s + 3:]])
        # --- padding
        if e > ve:
            yield 'padding-nonzero|%s' % where, frame[:ve] + b'\x01' + frame[ve + 1:]
        # --- tree edits (re-encoded canonically, all lengths consistent)
        if depth > 1:
            node = ttlv.get_path(tree, n['path'])
            yield 'delete|%s' % where, ttlv.encode(ttlv.replace_path(tree, n['path'], [])[0])
            yield 'duplicate|%s' % where, ttlv.encode(ttlv.replace_path(tree, n['path'], [node, node])[0])
            parent = ttlv.get_path(tree, n['path'][:-1])
            i = n['path'][-1]
            if i + 1 < len(parent[2]):
                nxt = parent[2][i + 1]
                t2 = ttlv.replace_path(tree, n['path'][:-1] + (i + 1,), [])[0]
                t2 = ttlv.replace_path(t2, n['path'], [nxt, node])[0]
                yield 'swap-next|%s' % where, ttlv.encode(t2)
            for k in (1, 8, 64):
                wrapped = node
                for _ in range(k):
                    wrapped = (node[0], ttlv.STRUCTURE, [wrapped])
                yield 'wrap%d|%s' % (k, where), ttlv.encode(ttlv.replace_path(tree, n['path'], [wrapped])[0])
        # --- value edits on particular nodes
        if n['tag'] == T.BATCH_COUNT.value:
            count = int.from_bytes(frame[vs:vs + 4], 'big')
            for nc, cl in ((0, '0'), (count - 1, 'n-1'), (count + 1, 'n+1'), (2 ** 31 - 1, 'max')):
                if nc >= 0 and nc != count:
                    yield 'batch-count=%s' % cl, frame[:vs] + struct.pack('!i', nc) + frame[vs + 4:]
        # --- a structure whose contents are not items at all (0xFF where item headers belong; every
        #     length field around it stays consistent): no decoder can decode it - one that accepts
        #     the frame has skipped it
        if n['type'] == ttlv.STRUCTURE and n['length'] >= 8 and depth >= 2:
            yield 'garbage-content|%s' % where, frame[:vs] + b'\xff' * (ve - vs) + frame[ve:]
        # --- the operation of a batch item replaced by every other operation of the enumeration (the
        #     payload then belongs to another operation), alone and with the payload's contents garbage
        if n['tag'] == T.OPERATION.value and n['type'] == ttlv.ENUMERATION:
            cur = int.from_bytes(frame[vs:vs + 4], 'big')
            pay = [x for x in idx if x['path'][:-1] == n['path'][:-1] and x['tag'] == T.REQUEST_PAYLOAD.value]
            for op in list(E.Operation) + [0, 0x7fffffff]:
                ov = op if isinstance(op, int) else op.value
                on = 'invalid%d' % ov if isinstance(op, int) else op.name
                if ov == cur:
                    continue
                m = frame[:vs] + struct.pack('!I', ov) + frame[vs + 4:]
                yield 'operation=%s|%s' % (on, where), m
                if pay and pay[0]['length'] >= 8:
                    p_ = pay[0]
                    yield 'operation=%s+garbage-content|%s' % (on, where), \
                        m[:p_['value_start']] + b'\xff' * (p_['value_end'] - p_['value_start']) + m[p_['value_end']:]
    for v in ((0, 9), (1, 5), (2, 1), (3, 0), (1, 2 ** 31 - 1)):
        yield 'version=%d.%d' % v, W.patch_version(frame, v)


_TAGNAMES = {t.value: t.name for t in T}


def _tagname(tag):
    return _TAGNAMES.get(tag, '%06x' % tag)


# ---------------------------------------------------------------------------------------------
# driving the real session
# ---------------------------------------------------------------------------------------------
def frames_of(stream):
    """Split a byte stream by the protocol's framing rule: 8-byte TTLV header + length bytes.
    Returns (complete frames, trailing incomplete bytes)."""
    out, pos = [], 0
    while len(stream) - pos >= 8:
        n = int.from_bytes(stream[pos + 4:pos + 8], 'big')
        if len(stream) - pos - 8 < n:
            break
        out.append(stream[pos:pos + 8 + n])
        pos += 8 + n
    return out, stream[pos:]


def envelope_malformed(frame):
    """The request-message grammar the KMIP specification fixes (6.1, 7.1): Request Message =
    Request Header, Batch Item+; the header has a Protocol Version (major, minor) and a Batch Count;
    every batch item has an Operation and a Request Payload. A frame that parses as TTLV but lacks
    one of these cannot be decoded as a request by anyone. Returns a description or None (also None
    when the frame is not well-formed TTLV: then only the library's decoder decides)."""
    try:
        tree = ttlv.parse(frame, strict=False)
    except Exception:   # noqa
        return None
    if tree[0] != T.REQUEST_MESSAGE.value or tree[1] != ttlv.STRUCTURE:
        return None
    kids = tree[2]
    hdrs = [k for k in kids if k[0] == T.REQUEST_HEADER.value and k[1] == ttlv.STRUCTURE]
    if len(hdrs) != 1 or kids[0] is not hdrs[0]:
        return "no request header"
    h = hdrs[0]
    pv = ttlv.find(h, T.PROTOCOL_VERSION.value)
    if pv is None or pv[1] != ttlv.STRUCTURE:
        return "request header without a protocol version"
    if ttlv.find(pv, T.PROTOCOL_VERSION_MAJOR.value) is None or \
            ttlv.find(pv, T.PROTOCOL_VERSION_MINOR.value) is None:
        return "protocol version without major/minor number"
    if ttlv.find(h, T.BATCH_COUNT.value) is None:
        return "request header without a batch count"
    items = [k for k in kids[1:] if k[0] == T.BATCH_ITEM.value and k[1] == ttlv.STRUCTURE]
    for i, it in enumerate(items):
        if ttlv.find(it, T.OPERATION.value) is None:
            return "batch item %d without an operation" % i
        if ttlv.find(it, T.REQUEST_PAYLOAD.value) is None:
            return "batch item %d without a request payload" % i
    return None


def library_accepts(frame):
    try:
        m = W.messages.RequestMessage()
        m.read(W.cutils.BytearrayStream(frame), kmip_version=E.KMIPVersion.KMIP_1_2)
        return True
    except Exception:   # noqa
        return False


class Run(object):
    """One session thread body (run()) over one stream on a clone of the base store."""

    def __init__(self, stream, chunker=None, world=None, max_s=20.0):
        self.own = world is None
        self.w = world or base().clone()
        self.calls = []
        real = self.w.engine.process_request

        def spy(request, credential=None):
            self.calls.append(credential)
            return real(request, credential)
        self.w.engine.process_request = spy
        self.conn = W.FakeConnection(W.make_cert(('alice',), 'client'), stream, chunker)
        self.sess = W.session_mod.KmipSession(self.w.engine, self.conn, ('127.0.0.1', 1), name='c12')
        self.exc = None
        self.before = self.w.raw_key()
        t0 = time.thread_time()      # CPU time of this thread: a verdict must not depend on machine load
        W.CLOCK.now = W.T0 + 50
        W.LOGS.clear()
        try:
            self.sess.run()
        except BaseException as e:    # noqa
            self.exc = e
        self.elapsed = time.thread_time() - t0
        self.after = self.w.raw_key()
        self.escaped = [t for t in W.LOGS.texts() if 'Failure handling message loop' in t[2]]

    def close(self):
        self.w.engine.process_request = None
        if self.own:
            self.w.close()


_REF = {}


def reference_probe_answer():
    if 'p' not in _REF:
        r = Run(probe_frame())
        _REF['p'] = W.Resp(r.conn.sent[0]).key()
        r.close()
    return _REF['p']


def judge_stream(stream, label, part, chunker=None, expect_probe=False, ctx=None, undecodable=()):
    """Run the stream and judge every response. Returns signature of the outcome.
    undecodable: indices of frames that cannot be fully decoded whatever the library's decoder
    says (a primitive whose declared value is cut short by its container)."""
    frames, tail = frames_of(stream)
    r = Run(stream, chunker)
    ctx = dict(ctx or {}, label=label)
    key = label.split('|')[0]
    try:
        part.count('streams')
        part.count('frames', len(frames))
        if r.exc is not None:
            part.violation("run-raises|%s|%s" % (key, type(r.exc).__name__),
                           "%s: run() raised %s: %s" % (label, type(r.exc).__name__, str(r.exc)[:150]), ctx)
            return ('raises',)
        if r.escaped:
            part.violation("loop-exception|%s" % key,
                           "%s: an exception escaped _handle_message_loop: %s" % (
                               label, r.escaped[0][2].splitlines()[-1][:150]), ctx)
        if r.elapsed > 10:
            part.violation("slow|%s" % key, "%s: the session needed %.1fs of CPU time" % (label, r.elapsed), ctx)
        if 'close' not in r.conn.calls:
            part.violation("no-close|%s" % key, "%s: the connection was not closed" % label, ctx)
        if len(r.conn.sent) != len(frames):
            part.violation("response-count|%s" % key,
                           "%s: %d complete frames but %d responses" % (label, len(frames), len(r.conn.sent)), ctx)
            return ('count', len(frames), len(r.conn.sent))
        accepted = [library_accepts(f) and i not in undecodable for i, f in enumerate(frames)]
        if len(r.calls) != sum(accepted):
            part.violation("engine-calls|%s" % key,
                           "%s: the engine was entered %d times for %d decodable frames" % (
                               label, len(r.calls), sum(accepted)), ctx)
        sig = []
        for i, (f, ok, resp) in enumerate(zip(frames, accepted, r.conn.sent)):
            probs = c02.envelope_problems(resp, None, False)
            for pk, what in probs:
                part.violation("response-malformed|%s|%s" % (pk, key), "%s: response %d: %s" % (label, i, what), ctx)
            if probs:
                sig.append('malformed')
                continue
            rr = W.Resp(resp)
            if not rr.items:
                # a decodable request with batch count 0: zero results for zero items
                if not ok:
                    part.violation("undecodable-not-invalid-message|%s" % key,
                                   "%s: frame %d is undecodable but the answer has no items" % (label, i), ctx)
                sig.append('EMPTY')
                continue
            it = rr.items[0]
            if not ok:
                if it.ok() or it.reason != RR.INVALID_MESSAGE.value:
                    part.violation("undecodable-not-invalid-message|%s" % key,
                                   "%s: the library's decoder rejects frame %d but the answer is %s" % (
                                       label, i, rr.brief()), ctx)
                sig.append('INVALID_MESSAGE' if not it.ok() else 'OK?')
            else:
                sig.append('OK' if it.ok() else 'FAIL:%s' % it.reason)
        if not any(accepted) and r.after != r.before:
            part.violation("undecodable-changes-store|%s" % key, "%s: the store changed" % label, ctx)
        if expect_probe and frames and len(r.conn.sent) == len(frames) and (
                expect_probe == 'always' or all(not a for a in accepted[:-1])):
            last = W.Resp(r.conn.sent[-1]).key()
            if last != reference_probe_answer():
                part.violation("probe-differs|%s" % key,
                               "%s: the valid request after the bad frame(s) is answered %s, on a fresh "
                               "connection %s" % (label, W.Resp(r.conn.sent[-1]).brief(), 'differently'), ctx)
        return tuple(sig)
    finally:
        r.close()


# ---- (ii)+(iv) content mutations ------------------------------------------------------------------
def _mut_worker(task):
    entries, tier = task
    part = Part()
    sigs = set()
    for cname, frame in entries:
        seen = set()
        for label, m in mutations(frame):
            if m in seen:
                continue
            seen.add(m)
            short = ttlv.short_primitive(frame, m) if label.startswith('length=') else None
            if short:
                part.count('short_primitive_mutants')
            elif envelope_malformed(m):
                short = envelope_malformed(m)
                part.count('envelope_malformed_mutants')
            elif 'garbage-content' in label.split('|')[0]:
                short = 'the contents of a structure are not TTLV items'
                part.count('garbage_content_mutants')
            sig = judge_stream(m + probe_frame(), '%s|%s' % (label, cname), part, expect_probe=True,
                               ctx={'corpus': cname, 'mutation': label}, undecodable=(0,) if short else ())
            part.count('mutants')
            sigs.add((label.split('|')[0], sig[0] if sig else None))
        part.sample({'corpus': cname, 'mutants': len(seen)})
    out = part.as_dict()
    out['sigs'] = sorted(sigs, key=repr)
    return out


# ---- (i) framing --------------------------------------------------------------------------------
def compositions(n, max_cuts=None):
    """All ways to cut n bytes into consecutive chunk sizes (optionally at most max_cuts cuts)."""
    for k in range(0, n if max_cuts is None else min(n, max_cuts + 1)):
        for cuts in itertools.combinations(range(1, n), k):
            sizes, prev = [], 0
            for c in cuts + (n,):
                sizes.append(c - prev)
                prev = c
            yield sizes


def chunker_from(sizes):
    sizes = list(sizes)

    def f(requested, available, call_index):
        return sizes[call_index] if call_index < len(sizes) else requested
    return f


def _framing_worker(task):
    kind, arg = task
    part = Part()
    sigs = set()
    if kind == 'tiny16':
        # a 16-byte frame: 8-byte header + one 8-byte item (an empty structure)
        frame = bytes.fromhex('4200780100000008') + bytes.fromhex('4200770100000000')
        for sizes in arg:
            sig = judge_stream(frame + probe_frame(), 'chunking16|%s' % len(sizes), part,
                               chunker=chunker_from(sizes), expect_probe=True, ctx={'chunks': sizes})
            sigs.add(('chunk16', sig))
    elif kind == 'real':
        name, frame = arg
        n = len(frame)
        menu = [1, 7, 8, 9, n // 2, n - 1]
        # 0..3 short-read deviations: the i-th recv returns fewer bytes than asked
        ref = None
        for k in range(0, 4):
            for positions in itertools.combinations(range(0, 6), k):
                for sizes_ in itertools.product(menu[:3] if k > 1 else menu, repeat=k):
                    dev = dict(zip(positions, sizes_))

                    def chunker(requested, available, call_index, dev=dev):
                        return dev.get(call_index, requested)
                    sig = judge_stream(frame + probe_frame(), 'short-reads%d|%s' % (k, name), part,
                                       chunker=chunker, expect_probe=False, ctx={'deviations': dev})
                    ref = ref or sig
                    if sig != ref:
                        part.violation("chunking-changes-outcome|%s" % name,
                                       "with short reads %s the outcome is %s, unchunked %s" % (dev, sig, ref),
                                       {'corpus': name, 'deviations': dev})
                    sigs.add(('short', k, sig))
        # every truncation point: the stream ends early, no answer for the incomplete frame
        for cut in range(0, n):
            sig = judge_stream(frame[:cut], 'truncated-stream|%s' % name, part, ctx={'cut': cut})
            sigs.add(('trunc', sig))
        # valid, then truncated
        for cut in (1, 7, 8, 9, n - 1):
            judge_stream(probe_frame() + frame[:cut], 'valid-then-truncated|%s' % name, part, ctx={'cut': cut})
    out = part.as_dict()
    out['sigs'] = sorted(sigs, key=repr)
    return out


# ---- (iii) tiny frames, (iv) sequences, (v) size limits ----------------------------------------------
def tiny_items():
    I, S, En, Tx, By, Bo = ttlv.INTEGER, ttlv.STRUCTURE, ttlv.ENUMERATION, ttlv.TEXT_STRING, ttlv.BYTE_STRING, ttlv.BOOLEAN
    pv = (T.PROTOCOL_VERSION.value, S, [(T.PROTOCOL_VERSION_MAJOR.value, I, 1), (T.PROTOCOL_VERSION_MINOR.value, I, 2)])
    return [
        (T.REQUEST_HEADER.value, S, []), (T.REQUEST_HEADER.value, S, [pv]),
        (T.REQUEST_HEADER.value, S, [pv, (T.BATCH_COUNT.value, I, 1)]),
        (T.REQUEST_HEADER.value, S, [pv, (T.BATCH_COUNT.value, I, 0)]),
        (T.BATCH_ITEM.value, S, []), (T.BATCH_ITEM.value, S, [(T.OPERATION.value, En, 10)]),
        (T.BATCH_ITEM.value, S, [(T.OPERATION.value, En, 10), (T.REQUEST_PAYLOAD.value, S, [])]),
        (T.BATCH_ITEM.value, S, [(T.OPERATION.value, En, 24), (T.REQUEST_PAYLOAD.value, S, [])]),
        (T.BATCH_ITEM.value, S, [(T.OPERATION.value, En, 9999), (T.REQUEST_PAYLOAD.value, S, [])]),
        (T.BATCH_COUNT.value, I, 1), (T.UNIQUE_IDENTIFIER.value, Tx, '1'), (T.REQUEST_PAYLOAD.value, S, []),
        (T.RESPONSE_HEADER.value, S, [pv]), (T.DATA.value, By, b'\x00' * 9), (T.ASYNCHRONOUS_INDICATOR.value, Bo, True),
    ]


def _misc_worker(task):
    kind, arg = task
    part = Part()
    sigs = set()
    if kind == 'tiny':
        items = tiny_items()
        tops = [T.REQUEST_MESSAGE.value, T.RESPONSE_MESSAGE.value, T.REQUEST_HEADER.value]
        for top in tops:
            for k in (0, 1, 2, 3):
                for combo in itertools.product(range(len(items)), repeat=k):
                    if arg is not None and hash(combo) % arg[1] != arg[0]:
                        continue
                    frame = ttlv.encode((top, ttlv.STRUCTURE, [items[i] for i in combo]))
                    sig = judge_stream(frame + probe_frame(), 'tiny|%06x|%d' % (top, k), part, expect_probe=True,
                                       ctx={'top': '%06x' % top, 'items': list(combo)})
                    part.count('mutants')
                    sigs.add(('tiny', k, sig[:1]))
        for raw in (b'', b'\x00' * 8, b'\xff' * 8, b'\x42\x00\x78\x01\x00\x00\x00\x00',
                    b'\x42\x00\x78\x01\x00\x00\x00\x08' + b'\xff' * 8, b'\x00' * 16, b'GET / HTTP/1.1\r\n\r\n'):
            judge_stream(raw + (probe_frame() if len(raw) >= 8 and frames_of(raw)[0] else b''),
                         'raw|%d' % len(raw), part, ctx={'raw': raw.hex()})
    elif kind == 'sequences':
        name, frame = arg
        bad = []
        for label, m in mutations(frame):
            if label.split('|')[0] in ('type=255', 'tag=zero', 'delete', 'wrap64', 'length=+8', 'version=3.0',
                                       'batch-count=max', 'truncate-mid-value'):
                bad.append((label, m))
        bad = bad[::max(1, len(bad) // 12)][:12]
        for k in (1, 2, 3):
            for combo in itertools.product(range(len(bad)), repeat=k) if k < 3 else \
                    [(i, (i + 1) % len(bad), (i + 5) % len(bad)) for i in range(len(bad))]:
                stream = b''.join(bad[i][1] for i in combo) + probe_frame()
                sig = judge_stream(stream, 'bad%d-then-good|%s' % (k, name), part, expect_probe=True,
                                   ctx={'corpus': name, 'bad': [bad[i][0] for i in combo]})
                sigs.add(('seq', k, sig[-1:] if sig else None))
        # good then good: two valid requests on one connection
        sig = judge_stream(frame + probe_frame(), 'good-then-good|%s' % name, part, ctx={'corpus': name})
        sigs.add(('gg', sig))
        # a read-only request with a (small or large) maximum response size, then the probe without
        # one: the probe must be answered as on a fresh connection
        for vname, item in size_items().items():
            for size in (0, 1, 64, 100000):
                for v in ((1, 2), (2, 0)):
                    limited = W.encode_request(W.build_request(v, [item()], max_response_size=size))
                    sig = judge_stream(limited + probe_frame(), 'limited-then-probe|%s' % vname, part,
                                       expect_probe='always', ctx={'item': vname, 'size': size,
                                                                   'version': list(v)})
                    sigs.add(('lim', size, sig))
    elif kind == 'size':
        name, item, version = arg
        plain = W.encode_request(W.build_request(version, [item()]))
        r = Run(plain)
        L = len(r.conn.sent[0]) if r.conn.sent else 0
        normal = W.Resp(r.conn.sent[0]).key() if r.conn.sent else None
        r.close()
        for s in (None, 0, 1, 8, 64, 128, L // 2, L - 8, L - 1, L, L + 1, 2 ** 31 - 1):
            hdr = {} if s is None else {'max_response_size': s}
            data = W.encode_request(W.build_request(version, [item()], **hdr))
            rr = Run(data)
            try:
                part.count('streams')
                if len(rr.conn.sent) != 1:
                    part.violation("size|response-count", "max size %s: %d responses" % (s, len(rr.conn.sent)),
                                   {'item': name, 'size': s})
                    continue
                resp = W.Resp(rr.conn.sent[0])
                too_large = (not resp.items[0].ok() and resp.items[0].reason == RR.RESPONSE_TOO_LARGE.value)
                want_large = s is not None and L > s
                sigs.add(('size', s is None, too_large))
                if want_large != too_large:
                    part.violation("size|%s" % ('not-enforced' if want_large else 'wrongly-enforced'),
                                   "%s under KMIP %s: normal response has %d bytes, maximum response size %s, "
                                   "answer %s" % (name, version, L, s, resp.brief()),
                                   {'item': name, 'size': s, 'version': list(version)})
                elif not too_large and resp.key() != normal:
                    part.violation("size|changes-answer", "max size %s changes the answer" % s,
                                   {'item': name, 'size': s})
                for pk, what in c02.envelope_problems(rr.conn.sent[0], version, True):
                    part.violation("size|malformed|%s" % pk, what, {'item': name, 'size': s})
            finally:
                rr.close()
    out = part.as_dict()
    out['sigs'] = sorted(sigs, key=repr)
    return out


def size_items():
    return {'get': lambda: W.p_get('1'), 'query': lambda: W.p_query(list(E.QueryFunction)),
            'locate': lambda: W.p_locate(), 'get_missing': lambda: W.p_get('999'),
            'get_attributes': lambda: W.p_get_attributes('1'),
            # answers the session cannot encode the normal way (the fallback it sends instead is subject
            # to the limit like any other response), and state-changing requests
            'get_attributes_unset': lambda: W.p_get_attributes('1', ['Contact Information']),
            'get_attributes_mixed': lambda: W.p_get_attributes('1', ['Name', 'Contact Information', 'State']),
            'get_attribute_list': lambda: W.p_get_attribute_list('1'),
            'discover': lambda: W.p_discover(), 'create': lambda: W.p_create(),
            'activate_missing': lambda: W.p_activate('999')}


def run(tier, seed):
    rep = Reporter('C12', 'fault_enumeration', tier, seed)
    corp = corpus(tier)
    tasks = []
    n = 24
    for i in range(n):
        if corp[i::n]:
            tasks.append((_mut_worker, (corp[i::n], tier)))
    comps = list(compositions(16)) if tier == 'thorough' else list(compositions(16, 4))
    for i in range(8):
        tasks.append((_framing_worker, ('tiny16', comps[i::8])))
    for name, frame in corp[:3 if tier == 'quick' else 8]:
        tasks.append((_framing_worker, ('real', (name, frame))))
    for i in range(8):
        tasks.append((_misc_worker, ('tiny', (i, 8))))
    for name, frame in corp[:2 if tier == 'quick' else 6]:
        tasks.append((_misc_worker, ('sequences', (name, frame))))
    for name in size_items():
        for v in ([(1, 2), (2, 0)] if tier == 'quick' else W.VERSIONS):
            tasks.append((_misc_worker, ('size', (name, None, v))))
    sigs = set()
    for part in pmap(_dispatch, [(f.__name__, a) for f, a in tasks]):
        sigs.update(repr(s) for s in part.pop('sigs', []))
        rep.merge(part)
    streams = rep.counters.get('streams', 0)
    if streams < 5000 or len(sigs) < 40:
        rep.harness_error("vacuous: %d streams, %d outcome signatures" % (streams, len(sigs)))
    return rep.finish(dict(
        evaluations=streams, distinct_nontrivial=len(sigs),
        rule="a case is one byte stream delivered to the real KmipSession.run() under one recv() "
             "chunking: (i) all compositions of a 16-byte frame (quick: <= 4 cuts), 0..3 short-read "
             "deviations at the first six recv calls and every truncation point of real requests; (ii) "
             "every single-point mutation (truncate, length, type, tag, padding, delete, duplicate, "
             "swap, nest x1/8/64, batch count, protocol version) at every TTLV node of the request "
             "corpus, each followed by a valid probe request; (iii) every frame of <= 3 items from a "
             "15-item alphabet under three top-level tags; (iv) bad^k.good sequences k=1..3; (v) maximum "
             "response size menus around each response length. distinct_nontrivial = distinct "
             "(mutation kind, outcome) signatures",
        frames=rep.counters.get('frames', 0), content_mutants=rep.counters.get('mutants', 0),
        short_primitive_mutants=rep.counters.get('short_primitive_mutants', 0),
        envelope_malformed_mutants=rep.counters.get('envelope_malformed_mutants', 0),
        corpus_requests=len(corp), chunkings_16_byte=len(comps), exhaustive=False,
    ), assumptions=[
        "recv() returning None is not in the menu (a blocking TLS socket never does); an incomplete "
        "frame followed by end of stream needs no answer",
        "'the library's decoder rejects the frame' is decided by running RequestMessage.read "
        "separately on the same bytes; in addition a frame in which a primitive item declares more "
        "value bytes than its enclosing structure holds cannot be fully decoded by anyone and must be "
        "refused, and so must a frame that is well-formed TTLV but lacks a part the request grammar "
        "makes mandatory (request header, protocol version with major and minor, batch count, an "
        "operation and a request payload in every batch item) (structures with over-long length fields whose children are all present are "
        "accepted by the library's lenient decoder and are not demanded to be refused)",
        "the outer TTLV length is the framing itself, so mutants keep it consistent with the bytes sent",
    ])


def _dispatch(task):
    fname, arg = task
    if fname == '_misc_worker' and arg[0] == 'size':
        name, _, v = arg[1]
        arg = ('size', (name, size_items()[name], v))
    return globals()[fname](arg)


def replay(doc):
    part = Part()
    tier = 'thorough'
    if 'mutation' in doc:
        frame = dict(corpus(tier))[doc['corpus']]
        for label, m in mutations(frame):
            if label == doc['mutation']:
                short = (ttlv.short_primitive(frame, m) if label.startswith('length=') else None) or \
                    envelope_malformed(m)
                judge_stream(m + probe_frame(), label + '|' + doc['corpus'], part, expect_probe=True,
                             undecodable=(0,) if short else ())
                break
    elif 'raw' in doc:
        judge_stream(bytes.fromhex(doc['raw']), 'raw', part)
    elif 'size' in doc:
        return _replay_worker(_misc_worker(('size', (doc['item'], size_items()[doc['item']],
                                                     tuple(doc.get('version', (1, 2)))))))
    elif 'top' in doc:
        items = tiny_items()
        frame = ttlv.encode((int(doc['top'], 16), ttlv.STRUCTURE, [items[i] for i in doc['items']]))
        judge_stream(frame + probe_frame(), 'tiny', part, expect_probe=True)
    elif 'chunks' in doc:
        frame = bytes.fromhex('4200780100000008') + bytes.fromhex('4200770100000000')
        judge_stream(frame + probe_frame(), 'chunking16', part, chunker=chunker_from(doc['chunks']),
                     expect_probe=True)
    else:
        return False, 'replay of this case kind: re-run the check'
    v = part.violations
    return bool(v), '\n'.join("%s: %s" % (k, t) for k, t, _ in v) or 'no violation'


def _replay_worker(out):
    v = out['violations']
    return bool(v), '\n'.join("%s: %s" % (k, t) for k, t, _ in v) or 'no violation'
