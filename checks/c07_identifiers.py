"""C07 - unique identifiers are never reused; a destroyed identifier stays dead.

Depth-bounded tree of histories over the real engine (identifiers grow, so states never merge:
a tree, not a graph), including clean and kill restarts between requests. Prefix sharing by
database cloning.
"""
from mc import world as W
from mc.world import enums, CUM, AT
from mc.report import Reporter, Part
from mc.par import pmap

E = enums
RR = E.ResultReason
USERS = [('alice', None), ('bob', None), ('carol', ['g1'])]
W.use_rsa_pool()

MASKS = [CUM.ENCRYPT, CUM.DECRYPT, CUM.DERIVE_KEY, CUM.MAC_GENERATE, CUM.WRAP_KEY]


class Hist(object):
    """The harness's own record of what the server told its clients."""

    def __init__(self):
        self.ever = []        # every identifier ever returned by a creating operation
        self.live = {}        # uid -> dict(owner, policy, kind)
        self.dead = []        # in order of destruction
        self.problems = []    # (key, what) noticed by an action itself

    def copy(self):
        h = Hist()
        h.problems = list(self.problems)
        h.ever = list(self.ever)
        h.live = {k: dict(v) for k, v in self.live.items()}
        h.dead = list(self.dead)
        return h


def _new(h, r, owner, policy, kind, item=0, tag=W.TAG.UNIQUE_IDENTIFIER):
    if not r.items[item].ok():
        return None
    uid = r.pfind(tag, item)
    h.ever.append(uid)
    h.live[uid] = dict(owner=owner, policy=policy, kind=kind)
    return uid


def _newest(h, owner=None):
    c = [u for u in h.live if owner is None or h.live[u]['owner'] == owner]
    return max(c, key=int) if c else None


def _oldest(h):
    return min(h.live, key=int) if h.live else None


def _destroy(w, h, uid, user, groups=None):
    r = w.do((1, 4), W.p_destroy(uid), user=user, groups=groups)
    if r.items[0].ok():
        if uid in h.live:
            del h.live[uid]
            h.dead.append(uid)
        return True
    return False


def a_create_a(w, h):
    r = w.do((1, 2), W.p_create(W.sym_attrs(masks=MASKS, names=['n%d' % len(h.ever)])))
    _new(h, r, 'alice', 'default', 'sym')


def a_create_b_open(w, h):
    r = w.do((1, 4), W.p_create(W.sym_attrs(masks=MASKS, policy='open')), user='bob')
    _new(h, r, 'bob', 'open', 'sym')


def a_register_secret_a(w, h):
    r = w.do((1, 4), W.p_register(W.pie_secret(), W.common_attrs(groups=['grp'])))
    _new(h, r, 'alice', 'default', 'secret')


def a_keypair_a(w, h):
    r = w.do((1, 2), W.p_create_key_pair(**W.rsa_pair_attrs()))
    _new(h, r, 'alice', 'default', 'public', tag=W.TAG.PUBLIC_KEY_UNIQUE_IDENTIFIER)
    _new(h, r, 'alice', 'default', 'private', tag=W.TAG.PRIVATE_KEY_UNIQUE_IDENTIFIER)


def a_derive_a(w, h):
    base = [u for u in h.live if h.live[u]['owner'] == 'alice' and h.live[u]['kind'] == 'sym']
    r = w.do((1, 2), W.p_derive_key([min(base, key=int) if base else '1']))
    _new(h, r, 'alice', 'default', 'sym')


def a_batch_create_destroy(w, h):
    r = w.do((1, 2), [W.p_create(W.sym_attrs(masks=MASKS)), W.p_destroy()], user='bob')
    uid = _new(h, r, 'bob', 'default', 'sym', 0)
    if uid and len(r.items) > 1 and r.items[1].ok():
        del h.live[uid]
        h.dead.append(uid)


def _batch_then_destroy(first, kind, tags):
    """[creating operation, Destroy without identifier]: the placeholder names an object made by THIS
    batch; the Destroy answer says which one died."""
    def act(w, h):
        r = w.do((1, 2), [first(h), W.p_destroy()])
        made = [u for u in (_new(h, r, 'alice', 'default', kind, 0, t) for t in tags) if u]
        if made and len(r.items) > 1 and r.items[1].ok():
            died = r.pfind(W.TAG.UNIQUE_IDENTIFIER, 1)
            if died not in made:
                h.problems.append(("placeholder-foreign", "the batch made %s, its identifier-less Destroy "
                                   "answered for %s" % (made, died)))
            if died in h.live:
                del h.live[died]
            h.dead.append(died)
    return act


def _derive_item(h):
    base = [u for u in h.live if h.live[u]['owner'] == 'alice' and h.live[u]['kind'] == 'sym']
    return W.p_derive_key([min(base, key=int) if base else '1'])


a_batch_derive_destroy = _batch_then_destroy(_derive_item, 'sym', [W.TAG.UNIQUE_IDENTIFIER])
a_batch_register_destroy = _batch_then_destroy(lambda h: W.p_register(W.pie_secret()), 'secret',
                                               [W.TAG.UNIQUE_IDENTIFIER])
a_batch_keypair_destroy = _batch_then_destroy(
    lambda h: W.p_create_key_pair(**W.rsa_pair_attrs()), 'pair',
    [W.TAG.PUBLIC_KEY_UNIQUE_IDENTIFIER, W.TAG.PRIVATE_KEY_UNIQUE_IDENTIFIER])


def a_batch_create_then_fail(w, h):
    """A creating item reported successful, followed by a failing item in the same batch: the
    identifier was handed out, the object exists."""
    r = w.do((1, 2), [W.p_create(W.sym_attrs(masks=MASKS)), W.p_get('424242')], user='bob')
    _new(h, r, 'bob', 'default', 'sym', 0)


def a_batch_register_fail_create(w, h):
    r = w.do((1, 4), [W.p_register(W.pie_secret()), W.p_activate('424242'),
                      W.p_create(W.sym_attrs(masks=MASKS))],
             error_option=E.BatchErrorContinuationOption.CONTINUE)
    _new(h, r, 'alice', 'default', 'secret', 0)
    if len(r.items) > 2:
        _new(h, r, 'alice', 'default', 'sym', 2)


def a_destroy_newest_owner(w, h):
    u = _newest(h)
    if u:
        _destroy(w, h, u, h.live[u]['owner'])


def a_destroy_oldest_owner(w, h):
    u = _oldest(h)
    if u:
        _destroy(w, h, u, h.live[u]['owner'])


def a_destroy_newest_other(w, h):
    u = _newest(h)
    if u:
        _destroy(w, h, u, 'mallory')


def a_activate_compromise_destroy(w, h):
    u = _newest(h)
    if u:
        o = h.live[u]['owner']
        w.do((1, 2), W.p_activate(u), user=o)
        w.do((1, 2), W.p_revoke(u, E.RevocationReasonCode.KEY_COMPROMISE), user=o)
        _destroy(w, h, u, o)


def a_use_every_way_then_destroy(w, h):
    """The newest key is activated and USED in every indirect way first (as wrapping key, as
    derivation base, for Encrypt and MAC, read and listed) - whatever the server remembers of an
    object from using it must die with the object - then revoked and destroyed."""
    u = _newest(h)
    if not u or h.live[u]['kind'] != 'sym':
        return
    o = h.live[u]['owner']
    w.do((1, 2), W.p_activate(u), user=o)
    others = [x for x in h.live if x != u and h.live[x]['owner'] == o and h.live[x]['kind'] == 'sym']
    if others:
        w.do((1, 2), W.p_get(others[0], wrapping_spec=W.wrapping_spec(u)), user=o)
    w.do((1, 2), W.p_encrypt(u, iv=b'\x00' * 16), user=o)
    w.do((1, 2), W.p_mac(u), user=o)
    w.do((1, 2), W.p_get(u), user=o)
    w.do((1, 2), W.p_get_attributes(u), user=o)
    w.do((2, 0), W.p_get_attribute_list(u), user=o)
    w.do((1, 2), W.p_revoke(u), user=o)
    _destroy(w, h, u, o)


def a_destroy_dead_again(w, h):
    if h.dead:
        r = w.do((1, 2), W.p_destroy(h.dead[-1]), user='alice')
        return r


def a_restart_clean(w, h):
    w.restart(clean=True)


def a_restart_kill(w, h):
    w.restart(clean=False)


ACTIONS = {
    'create_a': a_create_a, 'create_b_open': a_create_b_open,
    'register_secret_a': a_register_secret_a, 'keypair_a': a_keypair_a, 'derive_a': a_derive_a,
    'batch_create_destroy_b': a_batch_create_destroy,
    'batch_create_then_fail_b': a_batch_create_then_fail,
    'batch_derive_destroy_a': a_batch_derive_destroy,
    'batch_register_fail_create_a': a_batch_register_fail_create,
    'destroy_newest_owner': a_destroy_newest_owner, 'destroy_oldest_owner': a_destroy_oldest_owner,
    'destroy_newest_other': a_destroy_newest_other,
    'activate_compromise_destroy': a_activate_compromise_destroy,
    'use_every_way_then_destroy': a_use_every_way_then_destroy,
    'destroy_dead_again': a_destroy_dead_again,
    'restart_clean': a_restart_clean, 'restart_kill': a_restart_kill,
}
NAMES = list(ACTIONS)

# other spellings of a numeric identifier: whichever of them the server resolves, an acknowledged
# Destroy has destroyed something, and what it destroyed stays dead under its canonical spelling
_AI = str.maketrans('0123456789', '\u0660\u0661\u0662\u0663\u0664\u0665\u0666\u0667\u0668\u0669')
_FW = str.maketrans('0123456789', '\uff10\uff11\uff12\uff13\uff14\uff15\uff16\uff17\uff18\uff19')
SPELLINGS = [
    ('lead-zero', lambda u: '0' + u), ('lead-space', lambda u: ' ' + u), ('trail-space', lambda u: u + ' '),
    ('plus', lambda u: '+' + u), ('decimal', lambda u: u + '.0'), ('exponent', lambda u: u + 'e0'),
    ('arabic-indic', lambda u: u.translate(_AI)), ('fullwidth', lambda u: u.translate(_FW)),
    ('underscore', lambda u: '0_' + u), ('hex', lambda u: hex(int(u))), ('newline', lambda u: u + '\n'),
]


def _spelled_destroy(k):
    def act(w, h):
        u = _newest(h, 'alice')
        if not u:
            return
        sp = SPELLINGS[k][1](u)
        cols, rows = w.dump()['managed_objects']
        before = set(str(r[cols.index('uid')]) for r in rows)
        r = w.do((1, 4), W.p_destroy(sp), user='alice')
        if not r.items[0].ok():
            return
        cols, rows = w.dump()['managed_objects']
        gone = before - set(str(r_[cols.index('uid')]) for r_ in rows)
        if not gone:
            h.problems.append(("destroy-acknowledged-nothing-destroyed|%s" % SPELLINGS[k][0],
                               "Destroy(%r) (a spelling of identifier %s) was acknowledged as successful "
                               "but no object left the store" % (sp, u)))
        for g in gone:
            if g in h.live:
                del h.live[g]
            h.dead.append(g)
    return act


ACTIONS['batch_register_destroy_a'] = a_batch_register_destroy      # linear families only
ACTIONS['batch_keypair_destroy_a'] = a_batch_keypair_destroy
for _k in range(len(SPELLINGS)):
    ACTIONS['destroy_spelled:%s' % SPELLINGS[_k][0]] = _spelled_destroy(_k)


def _addressing_probes(uid):
    return [
        ('get', (1, 2), W.p_get(uid)),
        ('get_attributes', (1, 2), W.p_get_attributes(uid)),
        ('get_attribute_list', (2, 0), W.p_get_attribute_list(uid)),
        ('activate', (1, 2), W.p_activate(uid)),
        ('revoke', (1, 2), W.p_revoke(uid)),
        ('destroy', (1, 2), W.p_destroy(uid)),
        ('modify_attribute', (1, 2), W.p_modify_attribute_1x(uid, AT.NAME, 'zz', 0)),
        ('delete_attribute', (1, 2), W.p_delete_attribute_1x(uid, 'Name', 0)),
        ('set_attribute', (2, 0), W.p_set_attribute(uid, AT.SENSITIVE, True)),
        ('encrypt', (1, 2), W.p_encrypt(uid)),
        ('mac', (1, 2), W.p_mac(uid)),
        ('sign', (1, 2), W.p_sign(uid)),
        ('derive_key', (1, 2), W.p_derive_key([uid])),
    ]


def check_state(w, h, full, bad, other_rows_before=None, destroyed_now=()):
    """Appends (key, what) to bad."""
    bad.extend(h.problems)
    del h.problems[:]
    if len(set(h.ever)) != len(h.ever):
        dup = sorted(u for u in set(h.ever) if h.ever.count(u) > 1)
        bad.append(("reuse", "identifier(s) %s were handed out twice (all: %s)" % (dup, h.ever)))
    dump = w.dump()
    cols, rows = dump['managed_objects']
    uid_col = cols.index('uid')
    present = set(str(r[uid_col]) for r in rows)
    for u in h.dead:
        if u in present:
            bad.append(("row-survives", "destroyed identifier %s still has a managed_objects row" % u))
    for u in h.live:
        if u not in present:
            bad.append(("live-vanished", "live object %s has no managed_objects row" % u))
    # Locate by every identity omits dead ids
    for user, groups in USERS:
        r = w.do((1, 2), W.p_locate(), user=user, groups=groups)
        ids = [c[2] for c in (r.items[0].payload[2] if r.items[0].payload else [])
               if c[0] == W.TAG.UNIQUE_IDENTIFIER.value]
        for u in h.dead:
            if u in ids:
                bad.append(("locate-lists-dead", "Locate by %s lists destroyed identifier %s" % (user, u)))
    for u in h.dead:
        deep = full or u in destroyed_now
        for user, groups in USERS:
            probes = _addressing_probes(u) if deep else _addressing_probes(u)[:1]
            for name, version, item in probes:
                r = w.do(version, item, user=user, groups=groups)
                it = r.items[0]
                if it.ok() or it.reason != RR.ITEM_NOT_FOUND.value:
                    bad.append(("dead-answers|%s" % name,
                                "%s on destroyed identifier %s by %s answered %s" % (
                                    name, u, user, it.brief())))
        if deep:
            # a wrapping-key reference to the dead id
            live_sym = [x for x in h.live if h.live[x]['kind'] == 'sym']
            if live_sym:
                x = live_sym[0]
                r = w.do((1, 2), W.p_get(x, wrapping_spec=W.wrapping_spec(u)),
                         user=h.live[x]['owner'])
                if r.items[0].ok():
                    bad.append(("dead-answers|wrap",
                                "destroyed identifier %s worked as wrapping key" % u))
    return dump


def _rows_of_others(dump, exclude):
    out = {}
    for t, (cols, rows) in dump.items():
        if t == '#sequence':
            continue
        idx = None
        for c in ('uid', 'mo_uid'):
            if c in cols:
                idx = cols.index(c)
        if idx is None:
            continue
        out[t] = tuple(r for r in rows if str(r[idx]) not in exclude)
    return out


def explore(w, h, path, depth, part):
    if depth == 0:
        return
    for name in NAMES:
        c = w.clone()
        try:
            hc = h.copy()
            W.CLOCK.now = W.T0 + len(path) + 1
            before = w.dump()
            dead_before = set(hc.dead)
            ever_before = set(hc.ever)
            ACTIONS[name](c, hc)
            part.count('transitions')
            destroyed_now = [u for u in hc.dead if u not in dead_before]
            bad = []
            full = name.startswith('restart')
            after = check_state(c, hc, full, bad, destroyed_now=destroyed_now)
            if destroyed_now:
                ex = set(destroyed_now) | (set(hc.ever) - ever_before)     # and what the same action created
                if _rows_of_others(before, ex) != _rows_of_others(after, ex):
                    bad.append(("destroy-disturbs-others",
                                "Destroy of %s changed rows of other objects" % destroyed_now))
            for key, what in bad:
                part.violation("%s|after=%s" % (key, name), what + " after " + str(path + [name]),
                               {'path': path + [name]})
            if hc.dead:
                part.count('histories_with_dead_ids')
            part.counters.setdefault('_shapes', set()).add(
                (len(hc.ever), len(hc.dead), len(hc.live)))
            if depth == 1:
                part.sample({'history': path + [name], 'ids_ever': hc.ever, 'dead': hc.dead})
            explore(c, hc, path + [name], depth - 1, part)
        finally:
            c.close()


CREATORS = ['create_a', 'create_b_open', 'register_secret_a', 'keypair_a', 'derive_a',
            'batch_create_destroy_b']
DESTROYERS = ['destroy_newest_owner', 'destroy_oldest_owner', 'destroy_newest_other',
              'activate_compromise_destroy']
RESTARTS = [None, 'restart_clean', 'restart_kill']


def reuse_family(tier):
    """Histories aimed at identifier reuse: create+ ; destroy ; restart? ; create ; create?"""
    out = []
    pre = [[c] for c in CREATORS] + [[a, b] for a in CREATORS[:3] for b in CREATORS]
    for p in pre:
        for d in DESTROYERS:
            for r in RESTARTS:
                for c in CREATORS:
                    h = p + [d] + ([r] if r else []) + [c]
                    out.append(h)
                    if tier == 'thorough':
                        for c2 in CREATORS[:3]:
                            out.append(h + ['destroy_newest_owner', c2])
    for b in ('batch_derive_destroy_a', 'batch_register_destroy_a', 'batch_keypair_destroy_a'):
        for p in ([], ['create_a'], ['create_a', 'register_secret_a'], ['keypair_a']):
            for r in RESTARTS:
                out.append(['create_a'] + p + [b] + ([r] if r else []) + ['create_a'])
    for name, _ in SPELLINGS:
        for p in (['create_a'], ['create_b_open', 'create_a', 'create_a'], ['register_secret_a']):
            for r in RESTARTS:
                out.append(p + ['destroy_spelled:' + name] + ([r] if r else []) + ['create_a'])
    return out


def run_linear(path, part):
    w = _root()
    try:
        h = Hist()
        for i, name in enumerate(path):
            W.CLOCK.now = W.T0 + i + 1
            before = w.dump()
            dead_before = set(h.dead)
            ever_before = set(h.ever)
            ACTIONS[name](w, h)
            part.count('transitions')
            bad = []
            destroyed_now = [u for u in h.dead if u not in dead_before]
            after = check_state(w, h, name.startswith('restart') or i == len(path) - 1, bad,
                                destroyed_now=destroyed_now)
            if destroyed_now and _rows_of_others(before, set(destroyed_now) | (set(h.ever) - ever_before)) != \
                    _rows_of_others(after, set(destroyed_now) | (set(h.ever) - ever_before)):
                bad.append(("destroy-disturbs-others", "rows of other objects changed"))
            for key, what in bad:
                part.violation("%s|after=%s" % (key, name), what + " after " + str(path[:i + 1]),
                               {'path': path[:i + 1]})
        if h.dead:
            part.count('histories_with_dead_ids')
        part.counters.setdefault('_shapes', set()).add((len(h.ever), len(h.dead), len(h.live)))
    finally:
        w.close()


def _family_worker(task):
    paths = task
    part = Part()
    for p in paths:
        run_linear(p, part)
        part.count('family_histories')
    part.sample({'history': paths[-1]})
    out = part.as_dict()
    out['shapes'] = sorted(part.counters.pop('_shapes', set()))
    return out


def _root():
    W.CLOCK.now = W.T0
    pol = W.default_policies({'open': W.OPEN_POLICY})
    return W.World(policies=pol)


def _worker(task):
    first, depth = task
    part = Part()
    w = _root()
    try:
        h = Hist()
        # run the first action at the root, then explore below it
        c = w.clone()
        try:
            W.CLOCK.now = W.T0 + 1
            ACTIONS[first](c, h)
            part.count('transitions')
            bad = []
            check_state(c, h, False, bad)
            for key, what in bad:
                part.violation("%s|after=%s" % (key, first), what, {'path': [first]})
            explore(c, h, [first], depth - 1, part)
        finally:
            c.close()
    finally:
        w.close()
    out = part.as_dict()
    out['shapes'] = sorted(part.counters.pop('_shapes', set()))
    return out


def run(tier, seed):
    rep = Reporter('C07', 'model_checking', tier, seed)
    depth = 3 if tier == 'quick' else 4
    shapes = set()
    fam = reuse_family(tier)
    chunks = [fam[i::16] for i in range(16)]
    for part in pmap(_worker, [(a, depth) for a in NAMES]) + pmap(_family_worker, chunks):
        shapes.update(tuple(s) for s in part.pop('shapes', []))
        rep.merge(part)
    t = rep.counters.get('transitions', 0)
    if len(shapes) < 8 or rep.counters.get('histories_with_dead_ids', 0) < 100:
        rep.harness_error("vacuous: %d store shapes, %s histories with dead identifiers" % (
            len(shapes), rep.counters.get('histories_with_dead_ids')))
    return rep.finish(dict(
        states=t + 1, transitions=t, traces_validated_against_impl=t, max_depth=depth,
        alphabet=len(NAMES), reuse_family_histories=rep.counters.get('family_histories', 0),
        histories_with_dead_ids=rep.counters.get('histories_with_dead_ids', 0),
        distinct_store_shapes=len(shapes), exhaustive=True,
        explanation="complete tree of all action sequences up to max_depth over the alphabet (states "
                    "never merge because identifiers grow); every transition runs on the real engine; "
                    "checks after every step, full probe set after each Destroy and after each restart; "
                    "plus the complete 'reuse family' create+;destroy;restart?;create(;destroy;create) "
                    "of longer histories run linearly",
    ), assumptions=[
        "kill restart = fresh engine on the database as it is between two requests (mid-operation "
        "crash points are C09's subject)",
        "RSA key generation is served from a small pool of real keys",
        "'fails as not found' = result reason ITEM_NOT_FOUND",
    ])


def replay(doc):
    w = _root()
    try:
        h = Hist()
        lines, anybad = [], False
        for i, name in enumerate(doc['path']):
            W.CLOCK.now = W.T0 + i + 1
            before = w.dump()
            dead_before = set(h.dead)
            ever_before = set(h.ever)
            ACTIONS[name](w, h)
            bad = []
            destroyed_now = [u for u in h.dead if u not in dead_before]
            after = check_state(w, h, True, bad, destroyed_now=destroyed_now)
            if destroyed_now and _rows_of_others(before, set(destroyed_now) | (set(h.ever) - ever_before)) != \
                    _rows_of_others(after, set(destroyed_now) | (set(h.ever) - ever_before)):
                bad.append(("destroy-disturbs-others", "rows of other objects changed"))
            lines.append("%s: ever=%s dead=%s %s" % (name, h.ever, h.dead, bad or ''))
            anybad = anybad or bool(bad)
        return anybad, '\n'.join(lines)
    finally:
        w.close()
