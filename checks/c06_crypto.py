"""C06 - cryptographic operations compute what they claim.

Complete parameter grid at the CryptographyEngine seam and again through KMIP requests on a real
engine: algorithm x key size x block mode x padding x IV supplied/generated x AAD x tag length x
message-length class; MAC algorithms; derivation methods x hashes; key wrap sizes; sign/verify
matrix. Oracles: inverse laws, hand-written reference implementations (mc/ref/cryptoref.py),
tamper rejection for GCM, exact lengths, freshness decided by OWNING the entropy source.
"""
import itertools

from mc import world as W
from mc.world import enums, CUM
from mc.ref import cryptoref as R
from mc.report import Reporter, Part
from mc.par import pmap

from kmip.services.server.crypto import engine as crypto_mod

E = enums
ALG = E.CryptographicAlgorithm
MODE = E.BlockCipherMode
PAD = E.PaddingMethod
HASH = E.HashingAlgorithm
DM = E.DerivationMethod

KEY_SIZES = {'AES': [16, 24, 32], 'TRIPLE_DES': [16, 24], 'BLOWFISH': [16, 56], 'CAMELLIA': [16, 24, 32],
             'CAST5': [16, 5], 'IDEA': [16], 'RC4': [16, 5, 32]}
MODES = ['CBC', 'ECB', 'OFB', 'CFB', 'CTR', 'GCM']
PADS = ['PKCS5', 'ANSI_X923']


def key_patterns(n):
    return [bytes(range(1, n + 1)), bytes((i * 37 + 11) % 256 for i in range(n))]


def msg_lengths(bs):
    return [0, 1, bs - 1, bs, bs + 1, 2 * bs + 3]


def message(n):
    return bytes((i * 13 + 5) % 256 for i in range(n))


def sig_tamperings(sig, modulus=None):
    """Byte strings that are NOT a signature of the message although they are close to one: RFC 8017
    8.1.2/8.2.2 step 1 (wrong length => invalid) and s >= n included."""
    out = [('flipped-signature', flip(sig, 5)), ('flipped-first', flip(sig, 0)),
           ('flipped-last', flip(sig, len(sig) - 1)), ('truncated-signature', sig[:-1]),
           ('zero-prepended', b'\x00' + sig),
           ('zeros-prepended', b'\x00' * 8 + sig), ('zero-appended', sig + b'\x00'), ('empty', b'')]
    if sig[:1] != b'\x00':
        # (a signature that happens to start with a zero octet - 1 in 256, PSS salts are random - keeps
        # its integer value when that octet is dropped, and OpenSSL verifies the integer: not demanded)
        out.append(('truncated-front', sig[1:]))
    if modulus is not None:
        v = int.from_bytes(sig, 'big') + modulus
        out.append(('plus-modulus', v.to_bytes((v.bit_length() + 7) // 8, 'big')))
        if v.bit_length() <= len(sig) * 8:
            out.append(('plus-modulus-same-length', v.to_bytes(len(sig), 'big')))
    return out


def flip(b, i=0):
    if not b:
        return b
    return b[:i] + bytes([b[i] ^ 1]) + b[i + 1:]


def try_call(f, *a, **k):
    try:
        return f(*a, **k), None
    except W.exceptions.KmipError as e:
        return None, e
    except Exception as e:   # noqa
        return None, e


def symmetric_grid(part):
    ce = crypto_mod.CryptographyEngine()
    for alg, sizes in KEY_SIZES.items():
        bs = R.BLOCK.get(alg, 1)
        for ksize in sizes:
            for key in key_patterns(ksize):
                for mode in (MODES if alg != 'RC4' else [None]):
                    # a padding method named with a stream / AEAD mode is legal: ignored or applied, but
                    # Decrypt must invert Encrypt (one key pattern and the given-IV form are enough there)
                    pads = PADS if mode in ('CBC', 'ECB') else [None] + (PADS if key == key_patterns(ksize)[0] and mode else [])
                    for padn in pads:
                        for n in msg_lengths(bs if bs > 1 else 16):
                            m = message(n)
                            for iv_given in (True, False):
                                if mode in ('ECB', None) and not iv_given:
                                    continue
                                ivlen = 12 if mode == 'GCM' else bs
                                iv = bytes(range(100, 100 + ivlen)) if (iv_given and mode not in ('ECB', None)) else None
                                aads = [None, b'', b'associated'] if mode == 'GCM' else [None]
                                tags = [16, 12, 4, 8, 13] if mode == 'GCM' else [None]
                                for aad, tl in itertools.product(aads, tags):
                                    _sym_case(ce, part, alg, key, mode, padn, m, iv, aad, tl)
    part.sample({'grid': 'symmetric', 'algorithms': list(KEY_SIZES), 'modes': MODES})


def _sym_case(ce, part, alg, key, mode, padn, m, iv, aad, tl):
    label = "%s-%d/%s/%s/len=%d/iv=%s/aad=%s/tag=%s" % (alg, len(key) * 8, mode, padn, len(m),
                                                        'given' if iv else 'auto', aad, tl)
    ctx = {'grid': 'symmetric', 'case': label}
    kw = dict(cipher_mode=MODE[mode] if mode else None, padding_method=PAD[padn] if padn else None)
    e0 = W.ENTROPY.counter
    calls0 = len(W.ENTROPY.calls)
    enc, err = try_call(ce.encrypt, ALG[alg], key, m, iv_nonce=iv, auth_additional_data=aad,
                        auth_tag_length=tl, **kw)
    part.count('cases')
    if enc is None:
        part.counters.setdefault('_out', set()).add((alg, len(key), mode, padn, len(m), iv is None, aad is None, tl,
                                                     'refused:' + type(err).__name__))
        if not isinstance(err, W.exceptions.KmipError):
            part.violation("encrypt-raises|%s|%s|%s" % (alg, mode, type(err).__name__),
                           "%s: encrypt raised %s: %s" % (label, type(err).__name__, err), ctx)
        return
    part.counters.setdefault('_out', set()).add((alg, len(key), mode, padn, len(m), iv is None, aad is None, tl, 'ok'))
    ct = enc['cipher_text']
    used_iv = iv
    if iv is None and mode not in ('ECB', None):
        gen = enc.get('iv_nonce')
        bs = R.BLOCK.get(alg, 1)
        if gen is None:
            part.violation("iv-not-returned|%s|%s" % (alg, mode), "%s: no IV returned" % label, ctx)
            return
        if len(gen) != bs:
            part.violation("iv-length|%s|%s" % (alg, mode), "%s: generated IV has %d bytes, block size %d"
                           % (label, len(gen), bs), ctx)
        new_calls = W.ENTROPY.calls[calls0:]
        if new_calls != [len(gen)]:
            part.violation("iv-entropy|%s|%s" % (alg, mode),
                           "%s: the IV did not come from exactly one os.urandom(%d) call (calls: %s)" % (
                               label, len(gen), new_calls), ctx)
        used_iv = gen
    # reference ciphertext
    if alg in R.CIPHERS or alg == 'RC4':
        try:
            ref_ct, ref_tag = R.encrypt(alg, key, mode, m, used_iv, padn, aad, tl or 16)
        except Exception as e:   # noqa  reference cannot do it (e.g. GCM with a non-AES cipher / odd nonce)
            ref_ct = None
        alt = None
        if ref_ct is not None and padn and mode not in ('CBC', 'ECB'):
            try:       # the other legal reading: the padding is applied before the stream encryption
                alt = R.encrypt(alg, key, mode, R.pad(padn, m, R.BLOCK.get(alg, 1) if R.BLOCK.get(alg, 1) > 1 else 16),
                                used_iv, None, aad, tl or 16)
            except Exception:   # noqa
                alt = None
            if alt is not None and ct == alt[0]:
                ref_ct, ref_tag = alt
        if ref_ct is not None:
            if ct != ref_ct:
                part.violation("ciphertext|%s|%s|%s" % (alg, mode, padn),
                               "%s: cipher text %s, reference %s" % (label, ct.hex()[:64], ref_ct.hex()[:64]), ctx)
            if mode == 'GCM' and enc.get('auth_tag') != ref_tag:
                part.violation("tag|%s|%s" % (alg, tl), "%s: tag %s, reference %s" % (
                    label, (enc.get('auth_tag') or b'').hex(), ref_tag.hex()), ctx)
    if mode == 'GCM' and len(enc.get('auth_tag') or b'') != tl:
        part.violation("tag-length|%s" % tl, "%s: tag has %d bytes" % (label, len(enc.get('auth_tag') or b'')), ctx)
    # inverse law
    dec, err = try_call(ce.decrypt, ALG[alg], key, ct, iv_nonce=used_iv, auth_additional_data=aad,
                        auth_tag=enc.get('auth_tag'), **kw)
    if dec != m:
        part.violation("inverse|%s|%s|%s" % (alg, mode, padn),
                       "%s: Decrypt(Encrypt(m)) = %r (%s), m = %s" % (
                           label, dec.hex()[:40] if dec is not None else None, err, m.hex()[:40]), ctx)
    # authenticated modes reject any change
    if mode == 'GCM':
        tag = enc.get('auth_tag')
        tampered = [('tag', ct, flip(tag), aad), ('tag-last', ct, flip(tag, len(tag) - 1), aad),
                    ('aad', ct, tag, flip(aad) if aad else b'x'),
                    ('nonce', ct, tag, aad)]
        if ct:
            tampered += [('ciphertext', flip(ct), tag, aad), ('ciphertext-last', flip(ct, len(ct) - 1), tag, aad)]
        for what, c2, t2, a2 in tampered:
            iv2 = flip(used_iv) if what == 'nonce' else used_iv
            d2, err2 = try_call(ce.decrypt, ALG[alg], key, c2, iv_nonce=iv2, auth_additional_data=a2,
                                auth_tag=t2, **kw)
            part.count('cases')
            if d2 is not None:
                part.violation("tamper-accepted|%s|len=%s" % (what, 'empty' if not m else 'nonempty'),
                               "%s: decryption with a modified %s succeeded (%r)" % (label, what, d2[:20]), ctx)
            elif not isinstance(err2, W.exceptions.KmipError):
                part.violation("decrypt-raises|GCM|%s" % type(err2).__name__,
                               "%s: tampered %s raised %s" % (label, what, type(err2).__name__), ctx)


def mac_grid(part):
    ce = crypto_mod.CryptographyEngine()
    hm = {'HMAC_SHA1': 'SHA_1', 'HMAC_SHA224': 'SHA_224', 'HMAC_SHA256': 'SHA_256', 'HMAC_SHA384': 'SHA_384',
          'HMAC_SHA512': 'SHA_512', 'HMAC_MD5': 'MD5'}
    for name, h in hm.items():
        for klen in (1, 16, 64, 65, 200):
            for key in key_patterns(klen):
                for n in (0, 1, 63, 64, 65, 300):
                    got, err = try_call(ce.mac, ALG[name], key, message(n))
                    part.count('cases')
                    part.counters.setdefault('_out', set()).add(('mac', name, got is not None))
                    if got != R.hmac(h, key, message(n)):
                        part.violation("mac|%s" % name, "%s key=%d data=%d: %r (%s), reference %s" % (
                            name, klen, n, got, err, R.hmac(h, key, message(n)).hex()),
                            {'grid': 'mac', 'alg': name, 'key': klen, 'data': n})
    for alg in R.CIPHERS:
        for ksize in KEY_SIZES[alg][:2]:
            if alg == 'CAST5' and ksize == 5:
                continue
            for key in key_patterns(ksize):
                bs = R.BLOCK[alg]
                for n in msg_lengths(bs):
                    got, err = try_call(ce.mac, ALG[alg], key, message(n))
                    part.count('cases')
                    part.counters.setdefault('_out', set()).add(('cmac', alg, got is not None))
                    if got is None:
                        if not isinstance(err, W.exceptions.KmipError):
                            part.violation("cmac-raises|%s" % alg, "%s" % err, {'grid': 'mac', 'alg': alg})
                        continue
                    ref = R.cmac(alg, key, message(n))
                    if got != ref:
                        part.violation("cmac|%s" % alg, "CMAC-%s key=%d data=%d: %s, reference %s" % (
                            alg, ksize, n, got.hex(), ref.hex()), {'grid': 'mac', 'alg': alg, 'data': n})
    part.sample({'grid': 'mac', 'hmacs': list(hm), 'cmac_ciphers': list(R.CIPHERS)})


def derive_grid(part):
    ce = crypto_mod.CryptographyEngine()
    km = bytes(range(1, 33))
    for h in R.HASHES:
        hl = len(R.digest(h, b''))
        for length in (1, 16, hl, hl + 1, 64):
            for data in (None, b'', b'derivation data'):
                for salt in (None, b'', b'salt', bytes(range(40))):
                    cases = [
                        ('HMAC', dict(derivation_data=data, salt=salt), lambda: R.hkdf(h, km, salt, data, length)),
                        ('NIST800_108_C', dict(derivation_data=data), lambda: R.kbkdf_counter(h, km, data, length)),
                    ]
                    if salt is not None:
                        for it in (1, 2, 1000):
                            cases.append(('PBKDF2', dict(salt=salt, iteration_count=it),
                                          (lambda it=it: R.pbkdf2(h, km, salt, it, length))))
                    for method, kw, ref in cases:
                        got, err = try_call(ce.derive_key, DM[method], length, key_material=km,
                                            hash_algorithm=HASH[h], **kw)
                        part.count('cases')
                        part.counters.setdefault('_out', set()).add(('derive', method, h, got is not None))
                        ctx = {'grid': 'derive', 'method': method, 'hash': h, 'length': length}
                        if got is None:
                            if not isinstance(err, (W.exceptions.KmipError, ValueError, TypeError)):
                                part.violation("derive-raises|%s|%s" % (method, type(err).__name__), str(err), ctx)
                            continue
                        try:
                            want = ref()
                        except Exception:   # noqa
                            continue
                        if got != want:
                            part.violation("derive|%s|%s" % (method, h),
                                           "%s/%s length=%d data=%r salt=%r: %s, reference %s" % (
                                               method, h, length, data, salt, got.hex()[:48], want.hex()[:48]), ctx)
                        if len(got) != length:
                            part.violation("derive-length|%s" % method, "%d bytes for length %d" % (len(got), length), ctx)
        for data in (b'', b'abc', message(200)):
            got, err = try_call(ce.derive_key, DM.HASH, hl, derivation_data=data, hash_algorithm=HASH[h])
            part.count('cases')
            if got != R.digest(h, data):
                part.violation("derive|HASH|%s" % h, "HASH/%s(%r) = %r (%s)" % (h, data[:8], got, err),
                               {'grid': 'derive', 'method': 'HASH', 'hash': h})
        got, err = try_call(ce.derive_key, DM.HASH, hl, key_material=km, hash_algorithm=HASH[h])
        if got != R.digest(h, km):
            part.violation("derive|HASH-key|%s" % h, "HASH/%s over the key = %r" % (h, got),
                           {'grid': 'derive', 'method': 'HASH', 'hash': h})
    # ENCRYPT derivation = the cipher text
    for n in (16, 32):
        got, err = try_call(ce.derive_key, DM.ENCRYPT, n, derivation_data=message(n), key_material=km[:16],
                            encryption_algorithm=ALG.AES, cipher_mode=MODE.CBC, padding_method=PAD.PKCS5,
                            iv_nonce=b'\x07' * 16)
        part.count('cases')
        ref, _ = R.encrypt('AES', km[:16], 'CBC', message(n), b'\x07' * 16, 'PKCS5')
        if got != ref:
            part.violation("derive|ENCRYPT", "ENCRYPT derivation %r (%s) != reference" % (got, err),
                           {'grid': 'derive', 'method': 'ENCRYPT'})
    part.sample({'grid': 'derive', 'hashes': list(R.HASHES)})


def wrap_grid(part):
    ce = crypto_mod.CryptographyEngine()
    for kl in (16, 24, 32):
        for kek in key_patterns(kl):
            for ml in (16, 24, 32, 40, 8, 17):
                mat = message(ml)
                got, err = try_call(ce.wrap_key, mat, E.WrappingMethod.ENCRYPT, MODE.NIST_KEY_WRAP, kek)
                part.count('cases')
                part.counters.setdefault('_out', set()).add(('wrap', kl, ml, got is not None))
                ctx = {'grid': 'wrap', 'kek': kl, 'material': ml}
                if ml % 8 or ml < 16:
                    if got is not None:
                        part.violation("wrap-accepts-bad-length", "wrapped %d bytes" % ml, ctx)
                    elif not isinstance(err, W.exceptions.KmipError):
                        part.violation("wrap-raises|%s" % type(err).__name__, str(err), ctx)
                    continue
                if got != R.aes_key_wrap(kek, mat):
                    part.violation("wrap|%d|%d" % (kl, ml), "RFC 3394 wrap: %r (%s), reference %s" % (
                        got, err, R.aes_key_wrap(kek, mat).hex()), ctx)
    part.sample({'grid': 'wrap', 'kek_sizes': [16, 24, 32]})


def sign_grid(part):
    from cryptography.hazmat.primitives import hashes, serialization
    from cryptography.hazmat.primitives.asymmetric import padding as apad, rsa
    ce = crypto_mod.CryptographyEngine()
    priv_der, pub_der = W.rsa_fixture()
    other = rsa.generate_private_key(public_exponent=65537, key_size=1024)
    other_pub = other.public_key().public_bytes(serialization.Encoding.DER, serialization.PublicFormat.PKCS1)
    pub = serialization.load_der_public_key(pub_der)
    HL = {'MD5': hashes.MD5, 'SHA_1': hashes.SHA1, 'SHA_224': hashes.SHA224, 'SHA_256': hashes.SHA256,
          'SHA_384': hashes.SHA384, 'SHA_512': hashes.SHA512}
    DSA = {'MD5': 'MD5_WITH_RSA_ENCRYPTION', 'SHA_1': 'SHA1_WITH_RSA_ENCRYPTION',
           'SHA_224': 'SHA224_WITH_RSA_ENCRYPTION', 'SHA_256': 'SHA256_WITH_RSA_ENCRYPTION',
           'SHA_384': 'SHA384_WITH_RSA_ENCRYPTION', 'SHA_512': 'SHA512_WITH_RSA_ENCRYPTION'}
    for h in HL:
        for padn in ('PKCS1v15', 'PSS'):
            for how in ('alg+hash', 'dsa'):
                for n in (0, 1, 100):
                    m = message(n)
                    kw = dict(digital_signature_algorithm=E.DigitalSignatureAlgorithm[DSA[h]]) if how == 'dsa' \
                        else dict(digital_signature_algorithm=None)
                    sig, err = try_call(ce.sign, crypto_alg=ALG.RSA if how != 'dsa' else None,
                                        hash_algorithm=HASH[h] if how != 'dsa' else None,
                                        padding=PAD[padn], signing_key=priv_der, data=m, **kw)
                    part.count('cases')
                    ctx = {'grid': 'sign', 'hash': h, 'padding': padn, 'how': how, 'len': n}
                    part.counters.setdefault('_out', set()).add(('sign', h, padn, how, sig is not None))
                    if sig is None:
                        if h == 'SHA_512' and padn == 'PSS':
                            continue     # 1024-bit key is too small for SHA-512 with maximum salt
                        part.violation("sign-fails|%s|%s|%s" % (h, padn, how), "%s" % err, ctx)
                        continue
                    # independent verification of what Sign produced
                    try:
                        pub.verify(sig, m, apad.PKCS1v15() if padn == 'PKCS1v15' else apad.PSS(
                            mgf=apad.MGF1(HL[h]()), salt_length=apad.PSS.MAX_LENGTH), HL[h]())
                    except Exception as e:   # noqa
                        part.violation("signature-not-valid|%s|%s|%s" % (h, padn, how),
                                       "an independent verifier rejects the signature: %s" % type(e).__name__, ctx)
                    vkw = dict(padding_method=PAD[padn],
                               signing_algorithm=ALG.RSA if how != 'dsa' else None,
                               hashing_algorithm=HASH[h] if how != 'dsa' else None,
                               digital_signature_algorithm=kw['digital_signature_algorithm'])
                    for what, k_, m_, s_, want in (('same', pub_der, m, sig, True),
                                                  ('flipped-message', pub_der, flip(m) if m else b'x', sig, False),
                                                  ('other-key', other_pub, m, sig, False)) + tuple(
                            (w_, pub_der, m, s2, False) for w_, s2 in sig_tamperings(
                                sig, pub.public_numbers().n)):
                        ok, err = try_call(ce.verify_signature, signing_key=k_, message=m_, signature=s_, **vkw)
                        part.count('cases')
                        if ok is None and want is False and isinstance(err, W.exceptions.KmipError):
                            continue
                        if ok is not want:
                            part.violation("verify|%s|%s" % (what, padn),
                                           "verify(%s) with %s/%s/%s = %r (%s), expected %s" % (
                                               what, h, padn, how, ok, err, want), ctx)
    part.sample({'grid': 'sign/verify', 'hashes': list(HL), 'paddings': ['PKCS1v15', 'PSS']})


def keygen_grid(part):
    ce = crypto_mod.CryptographyEngine()
    lengths = {'AES': [128, 192, 256], 'TRIPLE_DES': [128, 192], 'BLOWFISH': [32, 128, 448], 'CAMELLIA': [128, 256],
               'CAST5': [40, 128], 'IDEA': [128], 'RC4': [40, 256],
               'HMAC_SHA1': [160], 'HMAC_SHA256': [256], 'HMAC_SHA512': [512], 'HMAC_MD5': [128]}
    for alg, ls in lengths.items():
        for ln in ls:
            vals = []
            for rep_ in range(3):
                c0 = len(W.ENTROPY.calls)
                r, err = try_call(ce.create_symmetric_key, ALG[alg], ln)
                part.count('cases')
                ctx = {'grid': 'keygen', 'alg': alg, 'length': ln}
                part.counters.setdefault('_out', set()).add(('keygen', alg, ln, r is not None))
                if r is None:
                    if not isinstance(err, W.exceptions.KmipError):
                        part.violation("keygen-raises|%s" % alg, str(err), ctx)
                    break
                v = r.get('value')
                if len(v) * 8 != ln:
                    part.violation("keygen-length|%s" % alg, "%s/%d: %d bytes" % (alg, ln, len(v)), ctx)
                if W.ENTROPY.calls[c0:] != [ln // 8]:
                    part.violation("keygen-entropy|%s" % alg,
                                   "%s/%d did not draw exactly %d bytes from os.urandom (calls %s)" % (
                                       alg, ln, ln // 8, W.ENTROPY.calls[c0:]), ctx)
                if v in vals:
                    part.violation("keygen-not-fresh|%s" % alg, "%s/%d returned the same key twice" % (alg, ln), ctx)
                vals.append(v)
    # invalid lengths are refused
    for alg, ln in (('AES', 100), ('AES', 0), ('TRIPLE_DES', 56), ('RSA', 128)):
        r, err = try_call(ce.create_symmetric_key, ALG[alg], ln)
        part.count('cases')
        if r is not None:
            part.violation("keygen-accepts-bad-length|%s|%d" % (alg, ln), "created %r" % r, {'grid': 'keygen'})
    # RSA: OpenSSL's RNG cannot be owned: two consecutive pairs differ and have the requested size
    from cryptography.hazmat.primitives import serialization
    seen = []
    for rep_ in range(2):
        pubd, privd = ce.create_asymmetric_key_pair(ALG.RSA, 1024)
        part.count('cases')
        k = serialization.load_der_private_key(privd['value'], None)
        if k.key_size != 1024:
            part.violation("rsa-size", "modulus has %d bits" % k.key_size, {'grid': 'keygen'})
        if privd['value'] in seen:
            part.violation("rsa-not-fresh", "same RSA key twice", {'grid': 'keygen'})
        seen.append(privd['value'])
    part.sample({'grid': 'key generation', 'algorithms': list(lengths)})


def request_grid(part):
    """The same laws through KMIP requests (parameter plumbing from payloads)."""
    W.CLOCK.now = W.T0
    w = W.World()
    try:
        MASK = [W.attr(W.AT.CRYPTOGRAPHIC_USAGE_MASK, list(CUM))]
        key = bytes(range(1, 17))
        kid = w.do((1, 4), W.p_register(W.pie_symmetric(key), MASK)).uid()
        w.do((1, 4), W.p_activate(kid))
        priv = w.do((1, 4), W.p_register(W.pie_private(), MASK)).uid()
        w.do((1, 4), W.p_activate(priv))
        pub = w.do((1, 4), W.p_register(W.pie_public(), MASK)).uid()
        w.do((1, 4), W.p_activate(pub))
        target = w.do((1, 4), W.p_register(W.pie_symmetric(message(32), length=256), MASK)).uid()
        T = E.Tags
        for mode in MODES:
            for n in (0, 1, 16, 35):
                for iv_given in (True, False):
                    if mode == 'ECB' and not iv_given:
                        continue
                    padn = 'PKCS5' if mode in ('CBC', 'ECB') else None
                    ivlen = 12 if mode == 'GCM' else 16
                    iv = bytes(range(50, 50 + ivlen)) if (iv_given and mode != 'ECB') else None
                    params = W.crypto_params(cryptographic_algorithm=ALG.AES, block_cipher_mode=MODE[mode],
                                             padding_method=PAD[padn] if padn else None,
                                             tag_length=16 if mode == 'GCM' else None)
                    aad = b'aad' if mode == 'GCM' else None
                    r = w.do((1, 4), W.p_encrypt(kid, params, message(n), iv, aad))
                    part.count('cases')
                    ctx = {'grid': 'requests', 'mode': mode, 'len': n, 'iv': iv_given}
                    part.counters.setdefault('_out', set()).add(('req-enc', mode, r.items[0].ok()))
                    if not r.items[0].ok():
                        if n == 0:
                            continue     # empty Data is refused by the payload layer, not a crypto matter
                        part.violation("request-encrypt-fails|%s" % mode, "%s" % r.brief(), ctx)
                        continue
                    ct = r.pfind(T.DATA) or b''
                    riv = r.pfind(T.IV_COUNTER_NONCE)
                    tag = r.pfind(T.AUTHENTICATED_ENCRYPTION_TAG)
                    used = iv if iv is not None else riv
                    if mode != 'ECB' and iv is None and not riv:
                        part.violation("request-iv-not-returned|%s" % mode, "no IV in the response", ctx)
                        continue
                    ref_ct, ref_tag = R.encrypt('AES', key, mode, message(n), used, padn, aad, 16)
                    if ct != ref_ct or (mode == 'GCM' and tag != ref_tag):
                        part.violation("request-ciphertext|%s" % mode, "cipher text/tag differ from the reference", ctx)
                    r2 = w.do((1, 4), W.p_decrypt(kid, params, ct, used, aad, tag))
                    part.count('cases')
                    if not r2.items[0].ok() or (r2.pfind(T.DATA) or b'') != message(n):
                        part.violation("request-inverse|%s" % mode, "Decrypt(Encrypt(m)) != m: %s" % r2.brief(), ctx)
                    if mode == 'GCM':
                        for what, c2, t2, a2 in (('tag', ct, flip(tag), aad), ('aad', ct, tag, b'aae'),
                                                 ('ciphertext', flip(ct) if ct else ct, tag if ct else flip(tag, 3), aad)):
                            r3 = w.do((1, 4), W.p_decrypt(kid, params, c2, used, a2, t2))
                            part.count('cases')
                            if r3.items[0].ok():
                                part.violation("request-tamper-accepted|%s|len=%s" % (what, 'empty' if not ct else 'nonempty'),
                                               "Decrypt accepted a modified %s (message length %d)" % (what, n), ctx)
        for name, h in (('HMAC_SHA256', 'SHA_256'), ('HMAC_SHA1', 'SHA_1'), ('HMAC_MD5', 'MD5')):
            r = w.do((1, 4), W.p_mac(kid, W.crypto_params(cryptographic_algorithm=ALG[name]), b'data'))
            part.count('cases')
            if r.pfind(T.MAC_DATA) != R.hmac(h, key, b'data'):
                part.violation("request-mac|%s" % name, "MAC differs from the reference: %s" % r.brief(), {'grid': 'requests'})
        r = w.do((1, 4), W.p_mac(kid, W.crypto_params(cryptographic_algorithm=ALG.AES), b'data'))
        if r.pfind(T.MAC_DATA) != R.cmac('AES', key, b'data'):
            part.violation("request-cmac", "CMAC differs: %s" % r.brief(), {'grid': 'requests'})
        # DeriveKey through requests: derived value is stored; fetch it and compare
        for method, kwp, ref in (
                (DM.HMAC, dict(derivation_data=b'info', salt=b'salt'), lambda: R.hkdf('SHA_256', key, b'salt', b'info', 16)),
                (DM.PBKDF2, dict(salt=b'salt', iteration_count=10), lambda: R.pbkdf2('SHA_256', key, b'salt', 10, 16)),
                (DM.NIST800_108_C, dict(derivation_data=b'fixed'), lambda: R.kbkdf_counter('SHA_256', key, b'fixed', 16)),
                (DM.HASH, dict(), lambda: R.digest('SHA_256', key)[:16])):
            params = W.cattrs.DerivationParameters(
                cryptographic_parameters=W.crypto_params(hashing_algorithm=HASH.SHA_256), **kwp)
            r = w.do((1, 4), W.p_derive_key([kid], method, params=params))
            part.count('cases')
            if not r.items[0].ok():
                part.violation("request-derive-fails|%s" % method.name, r.brief()[0], {'grid': 'requests'})
                continue
            g = w.do((1, 4), W.p_get(r.uid()))
            val = None
            for path, node in W.ttlv.walk(g.items[0].payload):
                if node[0] == T.KEY_MATERIAL.value:
                    val = node[2]
            if val != ref():
                part.violation("request-derive|%s" % method.name, "derived key %r != reference %s" % (val, ref().hex()),
                               {'grid': 'requests'})
        # Get wrapped
        g = w.do((1, 4), W.p_get(target, wrapping_spec=W.wrapping_spec(kid)))
        val = None
        for path, node in W.ttlv.walk(g.items[0].payload) if g.items[0].payload else []:
            if node[0] == T.KEY_MATERIAL.value:
                val = node[2]
        part.count('cases')
        if val != R.aes_key_wrap(key, message(32)):
            part.violation("request-wrap", "wrapped key %r != RFC 3394 reference (%s)" % (val, g.brief()), {'grid': 'requests'})
        # Sign / SignatureVerify through requests
        for padn in ('PKCS1v15', 'PSS'):
            sp = W.crypto_params(cryptographic_algorithm=ALG.RSA, hashing_algorithm=HASH.SHA_256, padding_method=PAD[padn])
            r = w.do((1, 4), W.p_sign(priv, sp, b'message'))
            sig = r.pfind(T.SIGNATURE_DATA)
            part.count('cases')
            if not sig:
                part.violation("request-sign-fails|%s" % padn, r.brief()[0], {'grid': 'requests'})
                continue
            for what, m_, s_, want in (('same', b'message', sig, E.ValidityIndicator.VALID),
                                       ('other-message', b'messagf', sig, E.ValidityIndicator.INVALID),
                                       ('flipped-signature', b'message', flip(sig, 9), E.ValidityIndicator.INVALID)) + \
                    tuple((w_, b'message', s2, E.ValidityIndicator.INVALID) for w_, s2 in sig_tamperings(sig)):
                v = w.do((1, 4), W.p_signature_verify(pub, sp, m_, s_))
                part.count('cases')
                if want == E.ValidityIndicator.INVALID and not v.items[0].ok():
                    continue        # refusing a malformed signature outright is as good as INVALID
                if v.pfind(T.VALIDITY_INDICATOR) != want.value:
                    part.violation("request-verify|%s|%s" % (what, padn), "validity %s, expected %s (%s)" % (
                        v.pfind(T.VALIDITY_INDICATOR), want.name, v.brief()), {'grid': 'requests'})
        # Create: fresh, right length, from the entropy seam
        vals = []
        for i in range(3):
            c0 = len(W.ENTROPY.calls)
            r = w.do((1, 4), W.p_create(W.sym_attrs(length=256)))
            g = w.do((1, 4), W.p_get(r.uid()))
            val = None
            for path, node in W.ttlv.walk(g.items[0].payload):
                if node[0] == T.KEY_MATERIAL.value:
                    val = node[2]
            part.count('cases')
            if val is None or len(val) != 32 or val in vals or W.ENTROPY.calls[c0:] != [32]:
                part.violation("request-create-key", "Create(AES-256) value %r, entropy calls %s, earlier %d" % (
                    val, W.ENTROPY.calls[c0:], len(vals)), {'grid': 'requests'})
            vals.append(val)
        part.sample({'grid': 'requests', 'modes': MODES})
    finally:
        w.close()

def _key_material(resp):
    if not resp.items or resp.items[0].payload is None:
        return None
    for path, node in W.ttlv.walk(resp.items[0].payload):
        if node[0] == E.Tags.KEY_MATERIAL.value and node[1] == W.ttlv.BYTE_STRING:
            return node[2]
        if node[0] == E.Tags.SECRET_DATA.value and False:
            return None
    return None


def request_grid_wide(part, tier='quick'):
    """The laws through KMIP requests for the whole parameter space the payloads plumb: every
    symmetric algorithm x key size x mode x padding (Encrypt/Decrypt), every MAC algorithm on keys and
    secret data, every derivation method x hash x salt/data/iterations x length from symmetric keys
    and secret data (the derived object is fetched back), RFC 3394 wrapping for every KEK size x
    material length, Sign/SignatureVerify for every hash x padding x naming on a registered pair and
    on pairs made by CreateKeyPair (incl. the wrong pair's public key), Create for every algorithm x
    length. All on ONE long-lived engine, each family twice in different orders, so a result cached or
    remembered across requests shows."""
    T = E.Tags
    W.CLOCK.now = W.T0
    W.use_rsa_pool()
    w = W.World()
    MASK = [W.attr(W.AT.CRYPTOGRAPHIC_USAGE_MASK, list(CUM))]
    V = (1, 4)

    def reg_sym(alg, key):
        r = w.do(V, W.p_register(W.pie_symmetric(key, alg=ALG[alg], length=len(key) * 8), MASK))
        if not r.items[0].ok():
            return None
        w.do(V, W.p_activate(r.uid()))
        return r.uid()

    try:
        # ---- A. Encrypt / Decrypt --------------------------------------------------------------
        for alg, sizes in KEY_SIZES.items():
            bs = R.BLOCK.get(alg, 1)
            for ksize in sizes:
                key = key_patterns(ksize)[1]
                kid = reg_sym(alg, key)
                if kid is None:
                    part.count('wide_register_refused')
                    continue
                for mode in (MODES if alg != 'RC4' else [None]):
                    for padn in (PADS if mode in ('CBC', 'ECB') else [None]):
                        for n in (1, bs if bs > 1 else 16, 2 * (bs if bs > 1 else 16) + 3):
                            ivlen = 12 if mode == 'GCM' else bs
                            iv = bytes(range(60, 60 + ivlen)) if mode not in ('ECB', None) else None
                            aad = b'aad' if mode == 'GCM' else None
                            params = W.crypto_params(
                                cryptographic_algorithm=ALG[alg],
                                block_cipher_mode=MODE[mode] if mode else None,
                                padding_method=PAD[padn] if padn else None,
                                tag_length=12 if mode == 'GCM' else None)
                            r = w.do(V, W.p_encrypt(kid, params, message(n), iv, aad))
                            part.count('cases')
                            part.count('wide_requests')
                            ok = r.items[0].ok()
                            part.counters.setdefault('_out', set()).add(('w-enc', alg, ksize, mode, padn, ok))
                            ctx = {'grid': 'requests-wide', 'family': 'encrypt', 'alg': alg, 'key_bytes': ksize,
                                   'mode': mode, 'padding': padn, 'len': n}
                            if not ok:
                                continue
                            part.count('wide_encrypt_ok')
                            ct = r.pfind(T.DATA) or b''
                            tag = r.pfind(T.AUTHENTICATED_ENCRYPTION_TAG)
                            try:
                                ref_ct, ref_tag = R.encrypt(alg, key, mode, message(n), iv, padn, aad, 12)
                            except Exception:   # noqa
                                ref_ct = None
                            if ref_ct is not None and (ct != ref_ct or (mode == 'GCM' and tag != ref_tag)):
                                part.violation("wide-ciphertext|%s|%s|%s" % (alg, mode, padn),
                                               "Encrypt request %s-%d/%s/%s len=%d: cipher text/tag differ from "
                                               "the reference" % (alg, ksize * 8, mode, padn, n), ctx)
                            r2 = w.do(V, W.p_decrypt(kid, params, ct, iv, aad, tag))
                            part.count('cases')
                            if not r2.items[0].ok() or (r2.pfind(T.DATA) or b'') != message(n):
                                part.violation("wide-inverse|%s|%s|%s" % (alg, mode, padn),
                                               "Decrypt(Encrypt(m)) != m for %s-%d/%s/%s len=%d: %s" % (
                                                   alg, ksize * 8, mode, padn, n, r2.brief()), ctx)
        # ---- B. MAC ------------------------------------------------------------------------------
        key = key_patterns(32)[0]
        kid = reg_sym('AES', key)
        sec = w.do(V, W.p_register(W.pie_secret(key[:20]), MASK)).uid()
        w.do(V, W.p_activate(sec))
        HM = {'HMAC_MD5': 'MD5', 'HMAC_SHA1': 'SHA_1', 'HMAC_SHA224': 'SHA_224', 'HMAC_SHA256': 'SHA_256',
              'HMAC_SHA384': 'SHA_384', 'HMAC_SHA512': 'SHA_512'}
        for order in (list(HM), list(reversed(list(HM)))):
            for name in order:
                for uid, k in ((kid, key), (sec, key[:20])):
                    for data in (b'd', message(100)):
                        r = w.do(V, W.p_mac(uid, W.crypto_params(cryptographic_algorithm=ALG[name]), data))
                        part.count('cases')
                        part.count('wide_requests')
                        if r.items[0].ok() and r.pfind(T.MAC_DATA) != R.hmac(HM[name], k, data):
                            part.violation("wide-mac|%s" % name, "MAC request %s over %d bytes differs from the "
                                           "reference" % (name, len(data)),
                                           {'grid': 'requests-wide', 'family': 'mac', 'alg': name})
                        part.counters.setdefault('_out', set()).add(('w-mac', name, r.items[0].ok()))
        for alg in ('AES', 'TRIPLE_DES', 'CAMELLIA'):
            k = key_patterns(16 if alg != 'TRIPLE_DES' else 24)[0]
            u = reg_sym(alg, k)
            if u is None:
                continue
            r = w.do(V, W.p_mac(u, W.crypto_params(cryptographic_algorithm=ALG[alg]), message(40)))
            part.count('cases')
            if r.items[0].ok() and r.pfind(T.MAC_DATA) != R.cmac(alg, k, message(40)):
                part.violation("wide-cmac|%s" % alg, "CMAC request with %s differs from the reference" % alg,
                               {'grid': 'requests-wide', 'family': 'mac', 'alg': alg})
        # ---- C. DeriveKey --------------------------------------------------------------------------
        bases = [(kid, key), (sec, key[:20])]
        combos = []
        for h in R.HASHES:
            for length in ((128, 256) if tier == 'quick' else (128, 192, 256)):
                for salt in (None, b'salt', b'other-salt'):
                    for data in (None, b'info'):
                        combos.append((DM.HMAC, h, length, dict(derivation_data=data, salt=salt),
                                       (lambda km, h=h, salt=salt, data=data, length=length:
                                        R.hkdf(h, km, salt, data, length // 8))))
                        if data is not None:
                            combos.append((DM.NIST800_108_C, h, length, dict(derivation_data=data),
                                           (lambda km, h=h, data=data, length=length:
                                            R.kbkdf_counter(h, km, data, length // 8))))
                        if salt is not None and data is None:
                            for it in (1, 3):
                                combos.append((DM.PBKDF2, h, length, dict(salt=salt, iteration_count=it),
                                               (lambda km, h=h, salt=salt, it=it, length=length:
                                                R.pbkdf2(h, km, salt, it, length // 8))))
            combos.append((DM.HASH, h, 128, dict(), (lambda km, h=h: R.digest(h, km)[:16])))
        for order in (combos, list(reversed(combos))):
            for method, h, length, kwp, ref in order:
                for uid, km in bases:
                    params = W.cattrs.DerivationParameters(
                        cryptographic_parameters=W.crypto_params(hashing_algorithm=HASH[h]), **kwp)
                    r = w.do(V, W.p_derive_key([uid], method, params=params,
                                               attrs=W.sym_attrs(length=length, masks=[CUM.ENCRYPT])))
                    part.count('cases')
                    part.count('wide_requests')
                    part.counters.setdefault('_out', set()).add(('w-derive', method.name, h, length, r.items[0].ok()))
                    ctx = {'grid': 'requests-wide', 'family': 'derive', 'method': method.name, 'hash': h,
                           'length': length, 'params': sorted(k for k, v_ in kwp.items() if v_ is not None)}
                    if not r.items[0].ok():
                        continue
                    part.count('wide_derive_ok')
                    val = _key_material(w.do(V, W.p_get(r.uid())))
                    try:
                        want = ref(km)
                    except Exception:   # noqa
                        continue
                    if val != want:
                        part.violation("wide-derive|%s|%s" % (method.name, h),
                                       "DeriveKey request %s/%s length=%d %s from a %d-byte base: stored %s, "
                                       "reference %s" % (method.name, h, length, ctx['params'], len(km),
                                                         (val or b'').hex()[:40], want.hex()[:40]), ctx)
        # ---- C-enc. DeriveKey by ENCRYPTION: the derived key is the cipher text of the derivation data
        # under the base key - a function of the request alone. Every mode x IV given / absent x twice:
        # an answer is either a refusal or the reference value, it consumes no entropy, and asking
        # twice gives the same key.
        for (uid, km) in bases:
            if len(km) not in (16, 24, 32):
                continue
            for mode in ('CBC', 'ECB', 'CFB', 'OFB', 'CTR'):
                for iv in (b'\x09' * 16, None):
                    vals = []
                    for rep_ in range(2):
                        params = W.cattrs.DerivationParameters(
                            cryptographic_parameters=W.crypto_params(
                                cryptographic_algorithm=ALG.AES, block_cipher_mode=MODE[mode],
                                padding_method=PAD.PKCS5),
                            derivation_data=b'derivation data!' * 2, initialization_vector=iv)
                        calls0 = len(W.ENTROPY.calls)
                        r = w.do(V, W.p_derive_key([uid], DM.ENCRYPT, params=params,
                                                   attrs=W.sym_attrs(length=128, masks=[CUM.ENCRYPT])))
                        part.count('cases')
                        part.count('wide_requests')
                        ctx = {'grid': 'requests-wide', 'family': 'derive-encrypt', 'mode': mode,
                               'iv': iv is not None, 'keying_bytes': len(km)}
                        part.counters.setdefault('_out', set()).add(('w-derive-enc', mode, iv is not None,
                                                                     r.items[0].ok()))
                        if not r.items[0].ok():
                            continue
                        part.count('wide_derive_ok')
                        if W.ENTROPY.calls[calls0:]:
                            part.violation("wide-derive-encrypt|entropy|%s" % mode,
                                           "DeriveKey ENCRYPT/%s (IV %s) drew %s bytes from os.urandom: the derived "
                                           "key cannot be re-derived" % (mode, 'given' if iv else 'absent',
                                                                         W.ENTROPY.calls[calls0:]), ctx)
                        vals.append(_key_material(w.do(V, W.p_get(r.uid()))))
                        if iv is not None or mode == 'ECB':
                            try:
                                want = R.encrypt('AES', km, mode, b'derivation data!' * 2, iv, 'PKCS5')[0][:16]
                            except Exception:   # noqa
                                want = None
                            if want is not None and vals[-1] != want:
                                part.violation("wide-derive-encrypt|value|%s" % mode,
                                               "DeriveKey ENCRYPT/%s: stored %s, reference %s" % (
                                                   mode, (vals[-1] or b'').hex(), want.hex()), ctx)
                    if len(vals) == 2 and vals[0] != vals[1]:
                        part.violation("wide-derive-encrypt|not-reproducible|%s" % mode,
                                       "two identical DeriveKey ENCRYPT/%s requests (IV %s) gave different keys "
                                       "%s / %s" % (mode, 'given' if iv else 'absent', vals[0].hex(), vals[1].hex()),
                                       ctx)
        # ---- C'. DeriveKey from TWO objects: the first is the keying object, a later secret data object
        # supplies the derivation data when the request carries none -------------------------------
        sec2_val = bytes(range(100, 130))
        sec2 = w.do(V, W.p_register(W.pie_secret(sec2_val), MASK)).uid()
        w.do(V, W.p_activate(sec2))
        for (uid, km) in bases:
            for method, h, ref in (
                    (DM.HMAC, 'SHA_256', lambda km: R.hkdf('SHA_256', km, b'salt', sec2_val, 16)),
                    (DM.HMAC, 'SHA_1', lambda km: R.hkdf('SHA_1', km, b'salt', sec2_val, 16)),
                    (DM.NIST800_108_C, 'SHA_512', lambda km: R.kbkdf_counter('SHA_512', km, sec2_val, 16))):
                params = W.cattrs.DerivationParameters(
                    cryptographic_parameters=W.crypto_params(hashing_algorithm=HASH[h]),
                    salt=b'salt' if method == DM.HMAC else None)
                r = w.do(V, W.p_derive_key([uid, sec2], method, params=params,
                                           attrs=W.sym_attrs(length=128, masks=[CUM.ENCRYPT])))
                part.count('cases')
                part.count('wide_requests')
                part.counters.setdefault('_out', set()).add(('w-derive2', method.name, h, r.items[0].ok()))
                if not r.items[0].ok():
                    continue
                part.count('wide_derive2_ok')
                val = _key_material(w.do(V, W.p_get(r.uid())))
                if val != ref(km):
                    part.violation("wide-derive-two-objects|%s|%s" % (method.name, h),
                                   "DeriveKey %s/%s from [%d-byte keying object, secret data as derivation "
                                   "data]: stored %s, reference %s" % (
                                       method.name, h, len(km), (val or b'').hex()[:40], ref(km).hex()[:40]),
                                   {'grid': 'requests-wide', 'family': 'derive2', 'method': method.name,
                                    'hash': h, 'keying_bytes': len(km)})
        # ---- D. key wrapping ----------------------------------------------------------------------
        for ksize in (16, 24, 32):
            kek = key_patterns(ksize)[1]
            kek_id = reg_sym('AES', kek)
            for msize in (16, 24, 32, 40):
                mat = message(msize)
                t = w.do(V, W.p_register(W.pie_symmetric(mat, length=msize * 8), MASK))
                if not t.items[0].ok():
                    continue
                for rep_ in (1, 2):      # twice: the second answer must equal the first
                    g = w.do(V, W.p_get(t.uid(), wrapping_spec=W.wrapping_spec(kek_id)))
                    part.count('cases')
                    part.count('wide_requests')
                    if g.items[0].ok() and _key_material(g) != R.aes_key_wrap(kek, mat):
                        part.violation("wide-wrap|kek=%d" % ksize,
                                       "Get wrapped (%d-byte material under a %d-byte key, request %d) differs "
                                       "from RFC 3394" % (msize, ksize, rep_),
                                       {'grid': 'requests-wide', 'family': 'wrap', 'kek': ksize, 'material': msize})
                # the same twice within ONE request, followed by an encryption under the wrapped key's
                # own material: every answer must still be the reference's
                spec = W.wrapping_spec(kek_id)
                gb = w.do(V, [W.p_get(t.uid(), wrapping_spec=spec), W.p_get(t.uid(), wrapping_spec=spec),
                              W.p_get(t.uid())])
                part.count('cases')
                part.count('wide_requests')
                if all(i.ok() for i in gb.items) and len(gb.items) == 3:
                    mats = []
                    for it in gb.items:
                        m_ = None
                        for path, node in W.ttlv.walk(it.payload):
                            if node[0] == T.KEY_MATERIAL.value and node[1] == W.ttlv.BYTE_STRING:
                                m_ = node[2]
                        mats.append(m_)
                    want = [R.aes_key_wrap(kek, mat), R.aes_key_wrap(kek, mat), mat]
                    if mats != want:
                        part.violation("wide-wrap-batch|kek=%d" % ksize,
                                       "batch [Get wrapped, Get wrapped, Get] of a %d-byte key under a %d-byte key: "
                                       "answers have %s bytes, expected %s" % (
                                           msize, ksize, [len(x or b'') for x in mats], [len(x) for x in want]),
                                       {'grid': 'requests-wide', 'family': 'wrap', 'kek': ksize, 'material': msize})
                plain = w.do(V, W.p_get(t.uid()))
                if _key_material(plain) != mat:
                    part.violation("wide-wrap-changed-stored-key", "after wrapped Gets the plain Get returns other "
                                   "bytes", {'grid': 'requests-wide', 'family': 'wrap', 'kek': ksize,
                                             'material': msize})
        # ---- E. Sign / SignatureVerify ----------------------------------------------------------------
        pairs = []
        priv = w.do(V, W.p_register(W.pie_private(), MASK)).uid()
        pub = w.do(V, W.p_register(W.pie_public(), MASK)).uid()
        pairs.append((priv, pub))
        for i in range(2):
            r = w.do(V, W.p_create_key_pair(**W.rsa_pair_attrs(
                pub_masks=(CUM.VERIFY,), priv_masks=(CUM.SIGN,))))
            if r.items[0].ok():
                pairs.append((r.pfind(T.PRIVATE_KEY_UNIQUE_IDENTIFIER), r.pfind(T.PUBLIC_KEY_UNIQUE_IDENTIFIER)))
        for a, b in pairs:
            w.do(V, W.p_activate(a))
            w.do(V, W.p_activate(b))
        DSA = {'MD5': 'MD5_WITH_RSA_ENCRYPTION', 'SHA_1': 'SHA1_WITH_RSA_ENCRYPTION',
               'SHA_224': 'SHA224_WITH_RSA_ENCRYPTION', 'SHA_256': 'SHA256_WITH_RSA_ENCRYPTION',
               'SHA_384': 'SHA384_WITH_RSA_ENCRYPTION', 'SHA_512': 'SHA512_WITH_RSA_ENCRYPTION'}
        for pi, (priv_, pub_) in enumerate(pairs):
            other_pub = pairs[(pi + 1) % len(pairs)][1]
            for h in DSA:
                for padn in ('PKCS1v15', 'PSS'):
                    for how in ('alg+hash', 'dsa'):
                        if how == 'dsa':
                            sp = W.crypto_params(digital_signature_algorithm=E.DigitalSignatureAlgorithm[DSA[h]],
                                                 padding_method=PAD[padn])
                        else:
                            sp = W.crypto_params(cryptographic_algorithm=ALG.RSA, hashing_algorithm=HASH[h],
                                                 padding_method=PAD[padn])
                        r = w.do(V, W.p_sign(priv_, sp, b'message'))
                        part.count('cases')
                        part.count('wide_requests')
                        sig = r.pfind(T.SIGNATURE_DATA) if r.items[0].ok() else None
                        part.counters.setdefault('_out', set()).add(('w-sign', h, padn, how, sig is not None))
                        if not sig:
                            continue
                        part.count('wide_sign_ok')
                        ctx = {'grid': 'requests-wide', 'family': 'sign', 'pair': pi, 'hash': h, 'padding': padn,
                               'how': how}
                        for what, k_, m_, s_, want in (
                                ('same', pub_, b'message', sig, E.ValidityIndicator.VALID),
                                ('other-message', pub_, b'messagf', sig, E.ValidityIndicator.INVALID),
                                ('flipped-signature', pub_, b'message', flip(sig, 7), E.ValidityIndicator.INVALID),
                                ('other-pair', other_pub, b'message', sig, E.ValidityIndicator.INVALID)) + tuple(
                                (w_, pub_, b'message', s2, E.ValidityIndicator.INVALID)
                                for w_, s2 in sig_tamperings(sig)[1:]):
                            if len(pairs) == 1 and what == 'other-pair':
                                continue
                            v_ = w.do(V, W.p_signature_verify(k_, sp, m_, s_))
                            part.count('cases')
                            got = v_.pfind(T.VALIDITY_INDICATOR) if v_.items[0].ok() else None
                            if got != want.value and not (want == E.ValidityIndicator.INVALID and got is None):
                                part.violation("wide-verify|%s|%s" % (what, padn),
                                               "SignatureVerify(%s) for %s/%s/%s on pair %d: validity %s, expected "
                                               "%s (%s)" % (what, h, padn, how, pi, got, want.name, v_.brief()), ctx)
        # ---- F. Create: exact length, fresh, from the entropy seam ------------------------------------
        for alg, sizes in KEY_SIZES.items():
            for ksize in sizes:
                seen = []
                for i in range(2):
                    c0 = len(W.ENTROPY.calls)
                    r = w.do(V, W.p_create(W.sym_attrs(alg=ALG[alg], length=ksize * 8)))
                    part.count('cases')
                    part.count('wide_requests')
                    if not r.items[0].ok():
                        break
                    val = _key_material(w.do(V, W.p_get(r.uid())))
                    if val is None or len(val) != ksize or val in seen or W.ENTROPY.calls[c0:] != [ksize]:
                        part.violation("wide-create|%s" % alg,
                                       "Create(%s, %d bits) #%d: value of %s bytes, entropy calls %s, repeated=%s"
                                       % (alg, ksize * 8, i + 1, None if val is None else len(val),
                                          W.ENTROPY.calls[c0:], val in seen),
                                       {'grid': 'requests-wide', 'family': 'create', 'alg': alg, 'bytes': ksize})
                    seen.append(val)
        part.sample({'grid': 'requests-wide', 'families': ['encrypt', 'mac', 'derive', 'wrap', 'sign', 'create']})
    finally:
        w.close()


GRIDS = {'symmetric': symmetric_grid, 'mac': mac_grid, 'derive': derive_grid, 'wrap': wrap_grid,
         'sign': sign_grid, 'keygen': keygen_grid, 'requests': request_grid,
         'requests-wide': request_grid_wide}


def _worker(task):
    part = Part()
    W.ENTROPY.constant = False
    import logging
    logging.disable(logging.CRITICAL)
    try:
        GRIDS[task](part)
    finally:
        logging.disable(logging.NOTSET)
    out = part.as_dict()
    out['out'] = len(part.counters.pop('_out', set()))
    return out


def run(tier, seed):
    rep = Reporter('C06', 'exploration', tier, seed)
    distinct = 0
    for part in pmap(_worker, list(GRIDS)):
        distinct += part.pop('out', 0)
        rep.merge(part)
    n = rep.counters.get('cases', 0)
    wide = {k: rep.counters.get(k, 0) for k in ('wide_requests', 'wide_encrypt_ok', 'wide_derive_ok',
                                                'wide_sign_ok', 'wide_register_refused', 'wide_derive2_ok')}
    if n < 10000 or distinct < 1000:
        rep.harness_error("vacuous: %d cases, %d outcome classes" % (n, distinct))
    if wide['wide_encrypt_ok'] < 150 or wide['wide_derive_ok'] < 400 or wide['wide_sign_ok'] < 40 or \
            wide['wide_derive2_ok'] < 4:
        rep.harness_error("vacuous wide request grid: %s" % wide)
    return rep.finish(dict(
        evaluations=n, distinct_nontrivial=distinct,
        rule="complete grids: 7 symmetric algorithms x key sizes x 2 key patterns x 6 modes x paddings x 6 "
             "message-length classes x IV supplied/generated x (GCM) AAD None/empty/data x tag lengths "
             "16,12,4,8,13, each with 5-6 tamperings; 6 HMACs x 5 key lengths x 6 data lengths and CMAC "
             "over 6 block ciphers; 4 derivation methods x 6 hashes x lengths x data x salt x iterations "
             "(+HASH, ENCRYPT); RFC 3394 for 3 KEK sizes x 6 material lengths; sign/verify for 6 hashes x "
             "2 paddings x 2 ways of naming the algorithm x 14 verification variants (flips, truncations, zero octets prepended/appended, empty, s+n); key generation for 11 "
             "algorithms x lengths x 3 consecutive calls; and the same laws through KMIP requests - a "
             "narrow grid (AES-128) and a wide one on ONE long-lived engine: Encrypt/Decrypt for every "
             "algorithm x key size x mode x padding x 3 lengths, 6 HMACs on a key and on secret data in "
             "both orders, CMAC for 3 ciphers, DeriveKey for 4 methods x 6 hashes x salt/data/iterations "
             "x lengths from a key and from secret data (derived object fetched back) in both orders, "
             "RFC 3394 Get-wrapped for 3 KEK sizes x 4 material lengths (twice each, then a plain Get), "
             "Sign/SignatureVerify for 6 hashes x 2 paddings x 2 namings on a registered pair and two "
             "CreateKeyPair pairs incl. the other pair's public key, Create for every algorithm x size. "
             "distinct_nontrivial = distinct (grid cell class, outcome) pairs",
        exhaustive=True, **wide
    ), assumptions=[
        "os.urandom inside the crypto engine is a counter stream owned by the harness: freshness and "
        "exact length of generated IVs/keys are decided by the calls made, not by statistics",
        "RSA key generation uses OpenSSL's RNG, which cannot be owned: only 'two consecutive pairs differ "
        "and have the requested modulus size' is checked",
        "mc/ref/cryptoref.py (HMAC/hash/PBKDF2 from hashlib, HKDF, SP 800-108, CMAC, RFC 3394 and the "
        "block modes written by hand over a single-block ECB call; GCM via AESGCM) is the reference",
    ])


def replay(doc):
    part = Part()
    GRIDS[doc.get('grid', 'symmetric')](part)
    v = part.violations
    return bool(v), '\n'.join("%s: %s" % (k, t) for k, t, _ in v[:20]) or 'no violation'
