"""C10 - concurrent sessions behave as if served one request at a time.

Stateless exploration of thread schedules (mc/sched.py: iterative preemption bounding, bound 2)
of real KmipSession threads sharing one real KmipEngine. Oracle: brute-force linearizability -
every complete schedule's per-client responses and final raw database must equal those of SOME
serial order of the requests (consistent with each client's own order) executed on a fresh
engine; plus no deadlock and no exception.
"""
import itertools
import os

import sqlalchemy

from mc import world as W
from mc.world import enums, CUM, AT
from mc import sched as S
from mc import shared
from mc.report import Reporter, Part
from mc.par import pmap

E = enums
MASKS = [CUM.ENCRYPT, CUM.DECRYPT]
W.use_rsa_pool(1)      # one key for every generated pair: executions must be reproducible
TRACE_FILES = ('kmip/services/server/engine.py',)
# thorough tier: call events of the session and authentication layers are schedule points as well
# (code that runs outside the engine lock)
WIDE_TRACE_FILES = TRACE_FILES + ('kmip/services/server/session.py', 'kmip/services/server/auth/slugs.py',
                                  'kmip/services/server/auth/utils.py', 'kmip/services/server/auth/api.py')


TEAM_POLICY = {'groups': {'g1': {ot: {op: E.Policy.ALLOW_ALL for op in E.Operation}
                                 for ot in E.ObjectType}}}
DIRECTORY = {'alice': ['g1'], 'bob': ['g2'], 'carol': ['g1', 'g2'], 'dave': []}


def base_store():
    W.CLOCK.now = W.T0
    pol = W.default_policies({'open': W.OPEN_POLICY, 'team': TEAM_POLICY})
    w = W.World(policies=pol)
    w.do((1, 4), W.p_register(W.pie_symmetric(), W.common_attrs(policy='open', names=['k1'],
                                                               sensitive=True) +
                              [W.attr(AT.CRYPTOGRAPHIC_USAGE_MASK, MASKS)]))          # 1 alice
    w.do((1, 4), W.p_activate('1'))
    w.do((1, 4), W.p_create(W.sym_attrs(masks=MASKS, policy='open')), user='bob')       # 2 bob
    w.do((1, 4), W.p_create(W.sym_attrs(masks=MASKS, policy='team')), user='alice', groups=['g1'])  # 3
    return w


def R(version, items, **hdr):
    return (version, items, hdr)


# name -> list of threads: (user, [requests])
HARNESSES = {
    'create_create': [('alice', [R((1, 2), lambda: [W.p_create()])]),
                      ('bob', [R((2, 0), lambda: [W.p_create()])])],
    'batch_placeholder': [('alice', [R((1, 2), lambda: [W.p_create(), W.p_get()])]),
                          ('bob', [R((1, 4), lambda: [W.p_create(), W.p_get_attributes()])])],
    'attribute_policy': [('alice', [R((1, 0), lambda: [W.p_get_attribute_list('1')])]),
                         ('bob', [R((2, 0), lambda: [W.p_get_attribute_list('1')])])],
    'version_gate': [('alice', [R((1, 0), lambda: [W.p_discover()])]),
                     ('bob', [R((1, 1), lambda: [W.p_encrypt('1', iv=b'\x00' * 16)])]),
                     ('carol', [R((1, 2), lambda: [W.p_encrypt('1', iv=b'\x00' * 16)])])],
    'batch_query_vs_query': [('alice', [R((1, 0), lambda: [W.p_create(), W.p_query()])]),
                             ('bob', [R((1, 3), lambda: [W.p_query()])])],
    'locate_destroy_create': [('alice', [R((1, 2), lambda: [W.p_locate()])]),
                              ('bob', [R((1, 2), lambda: [W.p_destroy('1')])]),
                              ('carol', [R((1, 4), lambda: [W.p_create(W.sym_attrs(policy='open'))])])],
    'two_each': [('alice', [R((1, 2), lambda: [W.p_create()]), R((1, 0), lambda: [W.p_locate()])]),
                 ('bob', [R((2, 0), lambda: [W.p_create()]), R((1, 4), lambda: [W.p_locate()])])],
    'modify_vs_getattributes': [
        ('alice', [R((1, 4), lambda: [W.p_modify_attribute_1x('1', AT.NAME, 'renamed', 0)])]),
        ('bob', [R((1, 2), lambda: [W.p_get_attributes('1')]),
                 R((2, 0), lambda: [W.p_get_attributes('1')])])],
    'three_creates': [('alice', [R((1, 0), lambda: [W.p_create()])]),
                      ('bob', [R((1, 2), lambda: [W.p_create()])]),
                      ('carol', [R((2, 0), lambda: [W.p_create()])])],
    # requests the engine rejects by raising out of process_request (stale time stamp, asynchronous
    # indicator, Undo): the lock must be released and nothing of them may stick to the other session
    'rejected_vs_create': [('alice', [R((1, 2), lambda: [W.p_create()], time_stamp=W.T0 - 5000),
                                      R((1, 4), lambda: [W.p_create()], async_indicator=True)]),
                           ('bob', [R((2, 0), lambda: [W.p_create()]),
                                    R((1, 0), lambda: [W.p_get_attribute_list('2')])])],
    # a slow operation (key generation, derivation) followed in the same batch by version-sensitive
    # items, against a request of another version: whatever a handler does around its slow part, the
    # rest of the batch runs under its own request's version
    'keypair_batch_vs_query': [('alice', [R((1, 2), lambda: [W.p_create_key_pair(**W.rsa_pair_attrs()),
                                                          W.p_query(), W.p_get_attribute_list('1')])]),
                               ('bob', [R((1, 0), lambda: [W.p_query()])])],
    'derive_batch_vs_attribute_list': [('alice', [R((1, 0), lambda: [W.p_derive_key(['1']),
                                                                    W.p_get_attribute_list('1'),
                                                                    W.p_discover()])]),
                                       ('bob', [R((2, 0), lambda: [W.p_get_attribute_list('1')])])],
    'four_clients': [('alice', [R((1, 0), lambda: [W.p_create()])]),
                     ('bob', [R((1, 4), lambda: [W.p_get_attribute_list('2')])]),
                     ('carol', [R((2, 0), lambda: [W.p_get_attribute_list('1')])]),
                     ('dave', [R((1, 1), lambda: [W.p_discover()])])],
}
# harnesses whose sessions authenticate through ONE shared SLUGS configuration object (as the
# sessions of a real KmipServer do), the directory lookups being schedule points: identities and
# group lists are established outside the engine lock
SHARED_SLUGS = {
    'slugs_team_get': [('alice', [R((1, 2), lambda: [W.p_get('3')])]),
                       ('bob', [R((1, 2), lambda: [W.p_get('3')]), R((1, 2), lambda: [W.p_get('3')])])],
    'slugs_create_locate': [('alice', [R((1, 2), lambda: [W.p_create(W.sym_attrs(policy='team'))])]),
                            ('bob', [R((1, 4), lambda: [W.p_locate()]), R((1, 4), lambda: [W.p_locate()])]),
                            ('carol', [R((2, 0), lambda: [W.p_get('3')])])],
}
HARNESSES.update(SHARED_SLUGS)
# harnesses whose requests arrive in several transport segments, every recv() being a schedule
# point: the receive path of the sessions (outside the engine) is explored too
CHUNKED = {
    'chunked_create_create': [('alice', [R((1, 2), lambda: [W.p_create()])]),
                              ('bob', [R((2, 0), lambda: [W.p_create()])])],
    'chunked_register_get': [('alice', [R((1, 4), lambda: [W.p_register(W.pie_secret(b'\x21' * 40))])]),
                             ('bob', [R((1, 0), lambda: [W.p_get('2')]), R((1, 2), lambda: [W.p_locate()])])],
}
HARNESSES.update(CHUNKED)
QUICK = ['create_create', 'batch_placeholder', 'attribute_policy', 'version_gate',
         'batch_query_vs_query', 'two_each', 'three_creates', 'slugs_team_get', 'chunked_create_create',
         'rejected_vs_create', 'keypair_batch_vs_query', 'derive_batch_vs_attribute_list']

_BASE = None


def _lock_wrapper_codes():
    """The body of the engine's lock wrapper is nothing but the lock acquisition (a schedule point
    of its own), so its own `call` event is not made a second point. Only recognised when
    process_request really is that wrapper."""
    code = W.engine_mod.KmipEngine.process_request.__code__
    return (code,) if code.co_name == 'decorator' else ()


def _base():
    global _BASE
    if _BASE is None:
        _BASE = base_store()
    return _BASE


def _encode(threads):
    return [(user, [W.encode_request(W.build_request(v, b(), **h)) for v, b, h in reqs])
            for user, reqs in threads]


def _sessions(w, name, threads):
    """One session per thread. SHARED_SLUGS harnesses: all sessions get the SAME auth settings
    list (one SLUGS block, one URL), exactly what KmipServer hands to every session."""
    if name in CHUNKED:
        out = [w.session_for(user) for user, _ in threads]
        for s_ in out:
            # the 8-byte frame header whole, the body in two segments
            s_._connection.chunker = lambda req, av, i: req if req <= 8 else max(1, req // 2)
        return out
    if name not in SHARED_SLUGS:
        return [w.session_for(user) for user, _ in threads]
    W.SLUGS_DIRECTORY.clear()
    W.SLUGS_DIRECTORY.update(DIRECTORY)
    shared = [('auth:slugs', {'enabled': 'True', 'url': 'http://slugs/D=corp'})]
    out = []
    for user, _ in threads:
        conn = W.FakeConnection(W.make_cert((user,), 'client'))
        out.append(W.session_mod.KmipSession(w.engine, conn, ('127.0.0.1', 1), name='s-%s' % user,
                                             enable_tls_client_auth=True, auth_settings=shared))
    return out


def _send(sess, data):
    conn = sess._connection
    conn.feed(data)
    n = len(conn.sent)
    sess._handle_message_loop()
    assert len(conn.sent) == n + 1
    return conn.sent[-1]


_AUDIT = {}


def audit(name):
    """Serial run of the harness under the shared-state watch: (changed roots, files to trace).
    Nothing changes on the unchanged tree; when something does, the modules owning it become
    schedule points for this harness (call events), because they touch shared state outside any
    discipline this explorer knows about."""
    if name in _AUDIT:
        return _AUDIT[name]
    threads = _encode(HARNESSES[name])
    w = _base().clone()
    try:
        W.CLOCK.now = W.T0 + 500
        W.ENTROPY.constant = True
        sessions = _sessions(w, name, threads)
        extra = {'operation_policies': w.policies}
        if name in SHARED_SLUGS:
            extra['auth_settings'] = sessions[0]._auth_settings
        with shared.Watch(extra) as watch:
            for i, (user, reqs) in enumerate(threads):
                for data in reqs:
                    _send(sessions[i], data)
        changed = sorted(watch.changed)
        files = shared.files_of(changed)
        if any(m == '<shared>' for m, _ in changed):
            files = sorted(set(files) | set(WIDE_TRACE_FILES))
    finally:
        w.close()
    _AUDIT[name] = (changed, tuple(files))
    return _AUDIT[name]


def serial_outcomes(name):
    """All serial orders consistent with each client's order -> outcome."""
    threads = _encode(HARNESSES[name])
    seq = []
    for i, (u, reqs) in enumerate(threads):
        seq += [i] * len(reqs)
    outs = {}
    for order in sorted(set(itertools.permutations(seq))):
        w = _base().clone()
        try:
            W.CLOCK.now = W.T0 + 500
            W.ENTROPY.constant = True
            idx = [0] * len(threads)
            resp = [[] for _ in threads]
            sessions = _sessions(w, name, threads)
            for t in order:
                user, reqs = threads[t]
                data = _send(sessions[t], reqs[idx[t]])
                resp[t].append(W.Resp(data).key())
                idx[t] += 1
            outs[(tuple(tuple(r) for r in resp), w.raw_key())] = order
        finally:
            w.close()
    return outs


def run_schedule(name, prefix, line_level, wide=False):
    """One controlled execution. Returns (sched, outcome, problems)."""
    threads = _encode(HARNESSES[name])
    w = _base().clone()
    problems = []
    try:
        W.CLOCK.now = W.T0 + 500
        W.ENTROPY.constant = True
        flagged = audit(name)[1]
        sch = S.Scheduler(prefix, tuple(sorted(set(WIDE_TRACE_FILES if wide else TRACE_FILES) | set(flagged))),
                          line_level, skip_codes=_lock_wrapper_codes())
        eng = w.engine
        eng._lock = S.SchedLock(sch)
        sqlalchemy.event.listen(eng._data_store, 'connect',
                                lambda c, r: c.execute('PRAGMA busy_timeout=0'))
        eng._data_store.dispose()
        resp = [[] for _ in threads]
        bodies = []
        sessions = _sessions(w, name, threads)
        W.SLUGS_HOOK = (lambda url: sch.point('io:slugs')) if name in SHARED_SLUGS else None
        W.RECV_HOOK = (lambda conn: sch.point('io:recv')) if name in CHUNKED else None
        for i, (user, reqs) in enumerate(threads):
            sess = sessions[i]
            sess._engine = S.EngineProxy(eng, sch)

            def body(i=i, sess=sess, reqs=reqs):
                for data in reqs:
                    conn = sess._connection
                    conn.feed(data)
                    n = len(conn.sent)
                    try:
                        sess._handle_message_loop()
                    except SystemExit:
                        raise
                    except BaseException as e:   # noqa
                        resp[i].append(('EXC', type(e).__name__, str(e)[:120]))
                        continue
                    if len(conn.sent) != n + 1:
                        resp[i].append(('NO-RESPONSE',))
                    else:
                        try:
                            resp[i].append(W.Resp(conn.sent[-1]).key())
                        except Exception as e:
                            resp[i].append(('UNPARSABLE', str(e)[:80]))
            bodies.append(body)
        try:
            sch.run(bodies)
        except S.Deadlock as e:
            problems.append(('deadlock', str(e)))
        for t in sch.threads:
            if t.exc is not None:
                problems.append(('thread-exception', "%s: %s" % (type(t.exc).__name__, t.exc)))
        outcome = (tuple(tuple(r) for r in resp), w.raw_key())
        return sch, outcome, problems
    finally:
        W.SLUGS_HOOK = None
        W.RECV_HOOK = None
        w.close()


def _brief(outcome):
    out = []
    for r in outcome[0]:
        row = []
        for k in r:
            if isinstance(k, tuple) and len(k) == 3 and isinstance(k[0], tuple):
                row.append(['v%d.%d' % k[0]] + [('OK' if i[2] == 0 else 'FAIL:%s:%s' % (i[3], i[4]))
                                                   for i in k[2]])
            else:
                row.append(k)
        out.append(row)
    return out


def explore_harness(name, bound, line_level, part, max_exec=None, wide=False):
    serial = serial_outcomes(name)
    distinct = set()

    def on_exec(s, prefix):
        pass

    def run_one(prefix):
        sch, outcome, problems = run_schedule(name, prefix, line_level, wide)
        sch._outcome, sch._problems = outcome, problems
        return sch

    def check(sch, prefix):
        part.count('executions')
        part.count('schedule_points', len(sch.points))
        outcome, problems = sch._outcome, sch._problems
        distinct.add(hash(outcome))
        bad = list(problems)
        if outcome not in serial:
            bad.append(('not-linearizable',
                        "responses/final state equal no serial order; got %s; serial orders give %s"
                        % (_brief(outcome), [_brief(o) for o in list(serial)[:3]])))
        if bad:
            # replay twice before reporting: the same schedule must fail every time
            choices = list(sch.choices)
            for _ in range(2):
                s2, o2, p2 = run_schedule(name, choices, line_level, wide)
                if o2 != outcome or s2.choices != choices:
                    part.error("nondeterministic replay of schedule %s in harness %s" % (
                        choices[:40], name))
                    return True
            for kind, what in bad:
                part.violation("%s|%s" % (kind, name),
                               "harness %s, schedule (thread per step) %s: %s" % (
                                   name, _compress(sch.step_log), what),
                               {'harness': name, 'choices': choices, 'line_level': line_level, 'wide': wide})
            return True      # one counterexample per harness is enough (fewest preemptions first)
        return False

    stats = S.explore(run_one, bound, check, max_exec)
    part.counters.setdefault('_h', []).append(
        (name, stats['executions'], stats['completed_bound'], stats['capped'], len(serial),
         len(distinct)))
    return stats


def _compress(log):
    out = []
    for t in log:
        if out and out[-1][0] == t:
            out[-1][1] += 1
        else:
            out.append([t, 1])
    return ' '.join('T%dx%d' % (t, n) for t, n in out)


# ---------------------------------------------------------------------------------------------
# policy monitor vs. requests: the monitor (a separate process in a real server) updates the policy
# store the engine reads; every operation on that store is atomic on its own (a Manager dict proxy),
# so every store operation - of the monitor and of the engine - is a schedule point
# ---------------------------------------------------------------------------------------------
class PointDict(dict):
    sched = None

    def _p(self):
        if PointDict.sched is not None:
            PointDict.sched.point('store')

    def __getitem__(self, k):
        self._p()
        return dict.__getitem__(self, k)

    def get(self, k, d=None):
        self._p()
        return dict.get(self, k, d)

    def __contains__(self, k):
        self._p()
        return dict.__contains__(self, k)

    def keys(self):
        self._p()
        return list(dict.keys(self))

    def __setitem__(self, k, v):
        self._p()
        dict.__setitem__(self, k, v)

    def pop(self, k, *d):
        self._p()
        return dict.pop(self, k, *d)

    def __delitem__(self, k):
        self._p()
        dict.__delitem__(self, k)


SHARED_JSON = {"shared": {"preset": {"SYMMETRIC_KEY": {
    "GET": "ALLOW_ALL", "GET_ATTRIBUTES": "ALLOW_ALL", "LOCATE": "ALLOW_ALL", "DESTROY": "ALLOW_OWNER"}}}}
# scenario -> (files present at the first scan, change made before the explored scan)
MONITOR = {
    'monitor_shadow': ({'b.json': SHARED_JSON}, ('write', 'a.json')),       # a later file takes over
    'monitor_restore': ({'b.json': SHARED_JSON, 'c.json': SHARED_JSON}, ('remove', 'c.json')),
    'monitor_edit': ({'a.json': SHARED_JSON}, ('write', 'a.json')),         # the owning file is rewritten
    'monitor_swap': ({'b.json': SHARED_JSON, 'c.json': SHARED_JSON}, ('remove+write', 'c.json', 'a.json')),
}
MONITOR_REQUESTS = [('bob', R((1, 2), lambda: [W.p_get('4')])), ('bob', R((1, 4), lambda: [W.p_locate()]))]


def _monitor_world(name):
    """World whose engine reads a PointDict kept by a real PolicyDirectoryMonitor; object 4 is alice's,
    under policy 'shared'; the change of the scenario is already on disk, not yet scanned."""
    import json as _json
    from kmip.services.server import monitor as monitor_mod
    files, change = MONITOR[name]
    w = _base().clone()
    pdir = os.path.join(w.dir, 'policies')
    os.makedirs(pdir)
    store = PointDict(w.engine._operation_policies)
    w.engine._operation_policies = store
    mon = monitor_mod.PolicyDirectoryMonitor(pdir, store, live_monitoring=False)
    stamp = [1000]

    def write(fn):
        with open(os.path.join(pdir, fn), 'w') as fh:
            _json.dump(SHARED_JSON, fh)
        stamp[0] += 10
        os.utime(os.path.join(pdir, fn), (stamp[0], stamp[0]))
    for fn in sorted(files):
        write(fn)
        mon.scan_policies()          # one file per scan: the later file shadows the earlier one
    W.CLOCK.now = W.T0 + 400
    r = w.do((1, 4), W.p_create(W.sym_attrs(masks=MASKS, policy='shared')), user='alice')
    assert r.items[0].ok() and r.uid() == '4', r.brief()
    for step in ([change] if change[0] != 'remove+write' else [('remove', change[1]), ('write', change[2])]):
        if step[0] == 'write':
            write(step[1])
        else:
            os.unlink(os.path.join(pdir, step[1]))
    return w, mon, store


def _monitor_outcome(w, store, resp):
    pol = sorted((k, repr(sorted(v.items(), key=repr))) for k, v in dict.items(store))
    return (tuple(resp), tuple(pol), w.raw_key())


def monitor_serial(name):
    outs = {}
    for order in ('scan-first', 'requests-first', 'between'):
        w, mon, store = _monitor_world(name)
        try:
            W.CLOCK.now = W.T0 + 500
            W.ENTROPY.constant = True
            sess = w.session_for('bob')
            datas = [W.encode_request(W.build_request(v, b(), **h)) for _, (v, b, h) in MONITOR_REQUESTS]
            resp = []
            if order == 'scan-first':
                mon.scan_policies()
            for i, d in enumerate(datas):
                if order == 'between' and i == 1:
                    mon.scan_policies()
                resp.append(W.Resp(_send(sess, d)).key())
            if order == 'requests-first':
                mon.scan_policies()
            outs[_monitor_outcome(w, store, resp)] = order
        finally:
            w.close()
    return outs


def run_monitor_schedule(name, prefix):
    w, mon, store = _monitor_world(name)
    problems = []
    try:
        W.CLOCK.now = W.T0 + 500
        W.ENTROPY.constant = True
        sch = S.Scheduler(prefix, TRACE_FILES, False, skip_codes=_lock_wrapper_codes())
        eng = w.engine
        eng._lock = S.SchedLock(sch)
        sqlalchemy.event.listen(eng._data_store, 'connect', lambda c, r: c.execute('PRAGMA busy_timeout=0'))
        eng._data_store.dispose()
        sess = w.session_for('bob')
        sess._engine = S.EngineProxy(eng, sch)
        datas = [W.encode_request(W.build_request(v, b(), **h)) for _, (v, b, h) in MONITOR_REQUESTS]
        resp = []

        def client():
            for d in datas:
                conn = sess._connection
                conn.feed(d)
                n = len(conn.sent)
                try:
                    sess._handle_message_loop()
                except SystemExit:
                    raise
                except BaseException as e:   # noqa
                    resp.append(('EXC', type(e).__name__, str(e)[:120]))
                    continue
                resp.append(W.Resp(conn.sent[-1]).key() if len(conn.sent) == n + 1 else ('NO-RESPONSE',))

        def scanner():
            mon.scan_policies()
        PointDict.sched = sch
        try:
            sch.run([client, scanner])
        except S.Deadlock as e:
            problems.append(('deadlock', str(e)))
        finally:
            PointDict.sched = None
        for t in sch.threads:
            if t.exc is not None:
                problems.append(('thread-exception', "%s: %s" % (type(t.exc).__name__, t.exc)))
        return sch, _monitor_outcome(w, store, resp), problems
    finally:
        PointDict.sched = None
        w.close()


def explore_monitor(name, bound, part, max_exec=None):
    serial = monitor_serial(name)
    distinct = set()

    def run_one(prefix):
        sch, outcome, problems = run_monitor_schedule(name, prefix)
        sch._outcome, sch._problems = outcome, problems
        return sch

    def check(sch, prefix):
        part.count('executions')
        part.count('monitor_executions')
        part.count('schedule_points', len(sch.points))
        outcome, problems = sch._outcome, sch._problems
        distinct.add(hash(outcome))
        bad = list(problems)
        if outcome not in serial:
            bad.append(('not-linearizable',
                        "a request overlapping the monitor's scan is answered as under neither the old nor "
                        "the new policy store: got %s; serial orders give %s" % (
                            _brief((outcome[0],)), [_brief((o[0],)) for o in serial])))
        if bad:
            choices = list(sch.choices)
            s2, o2, p2 = run_monitor_schedule(name, choices)
            if o2 != outcome or s2.choices != choices:
                part.error("nondeterministic replay of schedule %s in harness %s" % (choices[:40], name))
                return True
            for kind, what in bad:
                part.violation("%s|%s" % (kind, name), "harness %s, schedule (thread per step) %s: %s" % (
                    name, _compress(sch.step_log), what), {'harness': name, 'choices': choices, 'monitor': True})
            return True
        return False
    stats = S.explore(run_one, bound, check, max_exec)
    part.counters.setdefault('_h', []).append(
        (name, stats['executions'], stats['completed_bound'], stats['capped'], len(serial), len(distinct)))
    return stats


def _worker(task):
    name, bound, line_level, max_exec = task[:4]
    wide = len(task) > 4 and task[4]
    part = Part()
    try:
        if name in MONITOR:
            explore_monitor(name, bound, part, max_exec)
        else:
            explore_harness(name, bound, line_level, part, max_exec, wide)
    except S.HarnessError as e:
        part.error("harness %s: %s" % (name, e))
    part.sample({'harness': name, 'threads': [(u, len(r)) for u, r in HARNESSES[name]] if name in HARNESSES
                 else ['bob: Get, Locate', 'policy monitor: one scan']})
    out = part.as_dict()
    out['h'] = part.counters.pop('_h', [])
    out['flagged'] = [(name, ['%s:%s' % k for k in _AUDIT.get(name, ((), ()))[0]],
                       list(_AUDIT.get(name, ((), ()))[1]))] if _AUDIT.get(name, ((), ()))[0] else []
    return out


def run(tier, seed):
    rep = Reporter('C10', 'model_checking', tier, seed)
    names = QUICK if tier == 'quick' else list(HARNESSES)
    tasks = [(n, 2, False, 4000) for n in names]
    tasks += [(n, 2 if tier == 'quick' else 3, False, 4000) for n in MONITOR]
    if tier == 'thorough':
        # line-level points cost ~0.1-0.8 s per execution: capped, and not for the 4-thread harness
        tasks += [(n, 2, True, 2500) for n in names if len(HARNESSES[n]) <= 3]
        tasks += [(n, 3, False, 4000) for n in names if len(HARNESSES[n]) == 2]
        tasks += [(n, 2, False, 3000, True) for n in names]
    hs = []
    flagged = []
    for part in pmap(_worker, tasks):
        hs += part.pop('h', [])
        flagged += part.pop('flagged', [])
        rep.merge(part)
    ex = rep.counters.get('executions', 0)
    multi = set(h[0] for h in hs if h[5] >= 2)
    if ex < len(tasks) * 2 or len(multi) < 3:
        rep.harness_error("vacuous: %d executions, only %d harnesses (%s) saw >= 2 distinct "
                          "outcomes" % (ex, len(multi), sorted(multi)))
    capped = [h[0] for h in hs if h[3]]
    return rep.finish(dict(
        states=ex, transitions=rep.counters.get('schedule_points', 0),
        traces_validated_against_impl=ex, schedules=ex, preemption_bound=2,
        harnesses=[{'name': h[0], 'executions': h[1], 'completed_bound': h[2], 'capped': h[3],
                    'serial_orders_distinct_outcomes': h[4], 'distinct_outcomes_observed': h[5]}
                   for h in hs],
        capped_harnesses=capped, exhaustive=not capped,
        shared_state_written_during_requests=flagged,
        explanation="states = complete executions (schedules); transitions = scheduling decisions. "
                    "Every schedule with <= 2 preemptions (thorough: also line-level points, "
                    "bound 3 for two-thread harnesses, and a pass in which call events of the session "
                    "and authentication modules are schedule points too) of each harness is executed on real session "
                    "threads sharing one engine; with the engine lock intact the only branching is "
                    "the order of lock acquisitions, so the count is the number of interleavings of "
                    "the requests",
    ), assumptions=[
        "preemption inside one source line and C-level races in SQLite/OpenSSL are not modelled",
        "session code touches the engine only through default_protocol_version, process_request and "
        "build_error_response (any other access from session code is made a schedule point)",
        "os.urandom is a length-determined constant and time is frozen during a harness",
        "code of the codec / policy / crypto layers is not a schedule point unless the shared-state audit "
        "(a serial run of each harness that watches every mutable module-level and class-level object of "
        "the kmip package, the shared policy dict and the shared authentication settings) sees it write "
        "shared state; then the owning modules' call events become schedule points for that harness",
    ])


def replay(doc):
    name = doc['harness']
    if doc.get('monitor'):
        serial = monitor_serial(name)
        sch, outcome, problems = run_monitor_schedule(name, doc['choices'])
        bad = bool(problems) or outcome not in serial
        return bad, "schedule %s -> %s %s" % (_compress(sch.step_log), _brief((outcome[0],)), problems or '')
    serial = serial_outcomes(name)
    sch, outcome, problems = run_schedule(name, doc['choices'], doc.get('line_level', False),
                                          doc.get('wide', False))
    bad = bool(problems) or outcome not in serial
    return bad, "schedule %s -> %s %s" % (_compress(sch.step_log), _brief(outcome), problems or '')
