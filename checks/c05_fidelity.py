"""C05 - stored objects come back exactly as stored (client, wire, engine, SQLite, restart).

Deviation-bounded exhaustive enumeration (0/1 deviations from a default object per kind, pairs for
the key-wrapping data) x KMIP versions x restart/no restart x interleaved operations on other
objects, through ProxyKmipClient -> KMIPProtocol -> in-memory transport -> real KmipSession ->
engine -> SQLite -> fresh engine on the same file -> back.
Oracles: (1) field-wise fidelity of what Get returns, compared at the pie level (own field list,
not pie __eq__) AND at the wire level (the managed-object TTLV subtree of the Register request
equals that of the Get response); (2) GetAttributes / GetAttributeList report exactly the supplied
attributes + the attributes that are the stored object + the server-assigned ones.
"""
import copy
import itertools

from mc import world as W
from mc.world import enums, CUM, AT
from mc.ref import ttlv, versions as V
from mc.report import Reporter, Part
from mc.par import pmap
from checks import c19_client as c19

from kmip.pie import objects as pobjects

E = enums
T = E.Tags
ALG = E.CryptographicAlgorithm
W.use_rsa_pool()

OBJECT_TAGS = (T.SYMMETRIC_KEY.value, T.PUBLIC_KEY.value, T.PRIVATE_KEY.value, T.SPLIT_KEY.value,
               T.SECRET_DATA.value, T.CERTIFICATE.value, T.OPAQUE_OBJECT.value)

FULL_KWD = {
    'wrapping_method': E.WrappingMethod.ENCRYPT,
    'encryption_key_information': {
        'unique_identifier': '42',
        'cryptographic_parameters': {
            'block_cipher_mode': E.BlockCipherMode.NIST_KEY_WRAP, 'padding_method': E.PaddingMethod.PKCS5,
            'hashing_algorithm': E.HashingAlgorithm.SHA_256, 'key_role_type': E.KeyRoleType.KEK,
            'digital_signature_algorithm': E.DigitalSignatureAlgorithm.SHA256_WITH_RSA_ENCRYPTION,
            'cryptographic_algorithm': ALG.AES, 'random_iv': True, 'iv_length': 16, 'tag_length': 12,
            'fixed_field_length': 4, 'invocation_field_length': 8, 'counter_length': 4,
            'initial_counter_value': 1}},
    'mac_signature_key_information': {
        'unique_identifier': '43',
        'cryptographic_parameters': {'block_cipher_mode': E.BlockCipherMode.CBC,
                                     'cryptographic_algorithm': ALG.HMAC_SHA256}},
    'mac_signature': b'\x01\x02\x03\x04', 'iv_counter_nonce': b'\x0a' * 12,
    'encoding_option': E.EncodingOption.NO_ENCODING,
}
FALSY = {'random_iv': False, 'iv_length': 0, 'tag_length': 0, 'fixed_field_length': 0,
         'invocation_field_length': 0, 'counter_length': 0, 'initial_counter_value': 0}


def kwd_variants():
    out = [('absent', None), ('full', FULL_KWD)]
    minimal = {'wrapping_method': E.WrappingMethod.ENCRYPT,
               'encryption_key_information': {'unique_identifier': '42', 'cryptographic_parameters': {
                   'block_cipher_mode': E.BlockCipherMode.NIST_KEY_WRAP}},
               'encoding_option': E.EncodingOption.NO_ENCODING}
    out.append(('minimal', minimal))
    for f, v in FALSY.items():
        d = copy.deepcopy(FULL_KWD)
        d['encryption_key_information']['cryptographic_parameters'][f] = v
        out.append(('falsy:%s' % f, d))
    d = copy.deepcopy(minimal)
    d['encryption_key_information']['cryptographic_parameters'] = {'random_iv': False, 'iv_length': 0}
    out.append(('all-falsy-params', d))
    d = copy.deepcopy(FULL_KWD)
    d['mac_signature'] = b''
    out.append(('empty-mac-signature', d))
    d = copy.deepcopy(FULL_KWD)
    d['encoding_option'] = E.EncodingOption.TTLV_ENCODING
    d['wrapping_method'] = E.WrappingMethod.MAC_SIGN
    out.append(('other-enums', d))
    for m in (E.BlockCipherMode.CBC, list(E.BlockCipherMode)[-1]):
        d = copy.deepcopy(minimal)
        d['encryption_key_information']['cryptographic_parameters']['block_cipher_mode'] = m
        out.append(('mode:%s' % m.name, d))
    return out


def objects_menu(tier):
    """(label, factory() -> pie object)."""
    out = []

    def add(label, f):
        out.append((label, f))
    add('sym/default', lambda: pobjects.SymmetricKey(ALG.AES, 128, b'\x11' * 16))
    for n in (1, 7, 8, 9, 32, 1024, 1025):
        add('sym/value-len=%d' % n, (lambda n=n: pobjects.SymmetricKey(ALG.AES, 8 * n, bytes((i * 7 + 3) % 256 for i in range(n)))))
    for pat, pl in ((b'\x00', 'zeros'), (b'\xff', 'ones')):
        add('sym/value=%s' % pl, (lambda pat=pat: pobjects.SymmetricKey(ALG.AES, 128, pat * 16)))
    for a in ALG:
        add('sym/alg=%s' % a.name, (lambda a=a: pobjects.SymmetricKey(a, 128, b'\x11' * 16)))
    for label, kwd in kwd_variants():
        add('sym/kwd=%s' % label, (lambda kwd=kwd: _with_supplied(pobjects.SymmetricKey(
            ALG.AES, 128, b'\x55' * 16, key_wrapping_data=copy.deepcopy(kwd)), kwd)))
    for masks, ml in ([], 'none'), (list(CUM), 'all'):
        add('sym/masks=%s' % ml, (lambda masks=masks: pobjects.SymmetricKey(ALG.AES, 128, b'\x11' * 16, masks=list(masks))))
    for m in CUM:
        add('sym/mask=%s' % m.name, (lambda m=m: pobjects.SymmetricKey(ALG.AES, 128, b'\x11' * 16, masks=[m])))
    for nm in ('', 'a', 'name with spaces', 'é-ü', 'x' * 300):
        add('sym/name=%s' % (nm[:8] or 'empty'), (lambda nm=nm: pobjects.SymmetricKey(ALG.AES, 128, b'\x11' * 16, name=nm)))
    priv, pub = W.rsa_fixture()
    for f in (E.KeyFormatType.PKCS_1, E.KeyFormatType.X_509):
        add('pub/format=%s' % f.name, (lambda f=f: pobjects.PublicKey(ALG.RSA, 1024, pub, f)))
    for f in (E.KeyFormatType.PKCS_1, E.KeyFormatType.PKCS_8):
        add('priv/format=%s' % f.name, (lambda f=f: pobjects.PrivateKey(ALG.RSA, 1024, priv, f)))
    add('pub/kwd', lambda: _with_supplied(pobjects.PublicKey(ALG.RSA, 1024, pub, E.KeyFormatType.PKCS_1,
                                                              key_wrapping_data=copy.deepcopy(FULL_KWD)), FULL_KWD))
    add('priv/masks', lambda: pobjects.PrivateKey(ALG.RSA, 1024, priv, E.KeyFormatType.PKCS_1, masks=[CUM.SIGN]))
    for parts, ident, thr in ((3, 1, 2), (1, 1, 1), (255, 255, 255), (2, 0, 1)):
        for meth in E.SplitKeyMethod:
            # a prime field size is legal (if unusual) with every method; absent with every method too
            for prime in ((None, 104729, 2 ** 63 - 1) if meth != E.SplitKeyMethod.POLYNOMIAL_SHARING_PRIME_FIELD
                          else (None, 2 ** 63 - 1, 104729, 2 ** 63, 2 ** 64 + 13)):
                add('split/%d-%d-%d/%s/%s' % (parts, ident, thr, meth.name, prime),
                    (lambda parts=parts, ident=ident, thr=thr, meth=meth, prime=prime: pobjects.SplitKey(
                        cryptographic_algorithm=ALG.AES, cryptographic_length=128, key_value=b'\x44' * 16,
                        split_key_parts=parts, key_part_identifier=ident, split_key_threshold=thr,
                        split_key_method=meth, prime_field_size=prime)))
    for t in E.SecretDataType:
        for n in (1, 8, 9, 200):
            add('secret/%s/len=%d' % (t.name, n), (lambda t=t, n=n: pobjects.SecretData(b'\x22' * n, t)))
    for t in E.OpaqueDataType:
        for n in (1, 8, 9, 200):
            add('opaque/%s/len=%d' % (t.name, n), (lambda t=t, n=n: pobjects.OpaqueObject(b'\x33' * n, t)))
    add('cert/x509', lambda: W.pie_certificate())
    add('cert/masks', lambda: W.pie_certificate([CUM.VERIFY]))
    return out


def _with_supplied(obj, kwd):
    """Remember what the CALLER supplied: the pie object's own property already flattens it."""
    obj._verif_supplied_kwd = copy.deepcopy(kwd)
    return obj


def fields_of(o):
    """My own field list of a pie object (not pie __eq__)."""
    d = {'class': type(o).__name__, 'value': o.value}
    for f in ('cryptographic_algorithm', 'cryptographic_length', 'key_format_type', 'certificate_type',
              'data_type', 'opaque_type', 'split_key_parts', 'key_part_identifier', 'split_key_threshold',
              'split_key_method', 'prime_field_size'):
        if hasattr(o, f):
            d[f] = getattr(o, f)
    if hasattr(o, '_verif_supplied_kwd'):
        d.update(_flat('kwd', o._verif_supplied_kwd or {}))
    elif hasattr(o, 'key_wrapping_data'):
        d.update(_flat('kwd', o.key_wrapping_data or {}))
    return d


def _flat(prefix, d):
    out = {}
    for k, v in d.items():
        if isinstance(v, dict):
            out.update(_flat(prefix + '.' + k, v))
        elif v is not None:
            out[prefix + '.' + k] = v
    return out


def object_subtree(data):
    tree = ttlv.parse(data)
    for path, node in ttlv.walk(tree):
        if node[0] in OBJECT_TAGS and node[1] == ttlv.STRUCTURE:
            return node
    return None


INTERLEAVE = {
    'none': lambda w, u: None,
    'create-other': lambda w, u: w.do((1, 2), W.p_create()),
    'destroy-other': lambda w, u: w.do((1, 2), W.p_destroy('1')),
    'modify-other': lambda w, u: w.do((1, 4), W.p_modify_attribute_1x('2', AT.NAME, 'renamed', 0)),
    'failing': lambda w, u: w.do((1, 2), W.p_get('999')),
    'bob-creates': lambda w, u: w.do((2, 0), W.p_create(), user='bob'),
    # read-only uses of the object itself inside a batch whose last item commits: reading (plainly,
    # wrapped under key 3, its attributes) must leave what is stored untouched
    'reads-then-commit': lambda w, u: w.do((1, 2), [
        W.p_get(u, wrapping_spec=W.wrapping_spec('3')), W.p_get(u), W.p_get_attributes(u),
        W.p_get_attribute_list(u), W.p_create()], error_option=E.BatchErrorContinuationOption.CONTINUE),
}


def base_store():
    W.CLOCK.now = W.T0
    w = W.World()
    w.do((1, 2), W.p_create())                                                # 1
    w.do((1, 4), W.p_register(W.pie_secret(), W.common_attrs(names=['other'])))   # 2
    w.do((1, 4), W.p_register(W.pie_symmetric(b'\x6b' * 16), [
        W.attr(AT.CRYPTOGRAPHIC_USAGE_MASK, [CUM.WRAP_KEY, CUM.ENCRYPT])]))       # 3: a wrapping key
    w.do((1, 4), W.p_activate('3'))
    return w


_BASE = None


def base():
    global _BASE
    if _BASE is None:
        _BASE = base_store()
    return _BASE


def fidelity_case(label, factory, version, restart, inter, part):
    w = base().clone()
    try:
        W.CLOCK.now = W.T0 + 100
        obj = factory()
        want = fields_of(obj)
        log = []
        tr = c19.Transport(c19.real_responder(w, log))
        client = c19.make_client(version, tr)
        ctx = {'object': label, 'version': list(version), 'restart': restart, 'interleave': inter}
        try:
            uid = client.register(obj)
        except Exception as e:   # noqa
            part.count('refused')
            part.counters.setdefault('_out', set()).add((label.split('/')[0], 'refused', type(e).__name__))
            msg = str(e)
            if 'GENERAL_FAILURE' in msg:
                return      # a refusal, if an unspecific one: General Failure answers are C13's subject
            if not isinstance(e, (c19.pie_exc.KmipOperationFailure, TypeError, ValueError,
                                                            W.exceptions.KmipError, AttributeError)):
                part.violation("register-error|%s|%s" % (label.split('/')[0], type(e).__name__),
                               "registering %s under KMIP %s: %s: %s" % (label, version, type(e).__name__, msg[:150]), ctx)
            return
        reg_tree = object_subtree(log[-1][0])
        INTERLEAVE[inter](w, uid)
        if restart:
            w.restart(clean=(restart == 'clean'))
            tr.responder = c19.real_responder(w, log)
        W.CLOCK.advance(1000)
        try:
            back = client.get(uid)
        except Exception as e:   # noqa
            part.violation("get-fails|%s" % label.split('/')[0], "Get of %s (%s) failed: %s: %s" % (
                uid, label, type(e).__name__, str(e)[:150]), ctx)
            return
        part.count('round_trips')
        got = fields_of(back)
        diff = sorted(k for k in set(want) | set(got) if want.get(k) != got.get(k))
        part.counters.setdefault('_out', set()).add((label.split('/')[0], 'ok' if not diff else 'diff'))
        for k in diff:
            part.violation("pie-field|%s|%s" % (label.split('/')[0], k.split('.')[-1] if k.startswith('kwd') else k),
                           "%s (KMIP %d.%d, restart=%s, %s): field %s stored as %r came back as %r" % (
                               label, version[0], version[1], restart, inter, k, want.get(k), got.get(k)), ctx)
        get_tree = object_subtree(log[-1][1])
        if reg_tree is not None and get_tree != reg_tree:
            part.violation("wire-subtree|%s|%s" % (label.split('/')[0], _tree_diff(reg_tree, get_tree)[0]),
                           "%s: the object in the Get response differs from the registered one: %s" % (
                               label, _tree_diff(reg_tree, get_tree)[1]), ctx)
    finally:
        w.close()


def _tree_diff(a, b, path=''):
    if a[0] != b[0] or a[1] != b[1]:
        return ('%06x' % a[0], '%s: %06x/%d vs %06x/%d' % (path, a[0], a[1], b[0], b[1]))
    if a[1] == ttlv.STRUCTURE:
        ta, tb = [c[0] for c in a[2]], [c[0] for c in b[2]]
        for t in ta:
            if t not in tb:
                return ('lost:%06x' % t, '%s/%06x: item %06x lost' % (path, a[0], t))
        for t in tb:
            if t not in ta:
                return ('extra:%06x' % t, '%s/%06x: item %06x appeared' % (path, a[0], t))
        for ca, cb in zip(a[2], b[2]):
            d = _tree_diff(ca, cb, path + '/%06x' % a[0])
            if d:
                return d
        return None
    if a[2] != b[2]:
        return ('value:%06x' % a[0], '%s/%06x: %r vs %r' % (path, a[0], str(a[2])[:40], str(b[2])[:40]))
    return None


# ---- attribute exactness ---------------------------------------------------------------------------
def attribute_case(kind, supplied, version, restart, part):
    """supplied: dict(names=[], groups=[], appinfo=[], sensitive=None|bool, masks=None|list, policy=None)."""
    pol = W.default_policies({'open': W.OPEN_POLICY})
    w = W.World(policies=pol)
    try:
        W.CLOCK.now = W.T0 + 77
        attrs = W.common_attrs(supplied['names'], supplied['policy'], supplied['groups'], supplied['appinfo'],
                               supplied['sensitive'])
        if supplied['masks'] is not None and kind != 'OpaqueObject':
            attrs.append(W.attr(AT.CRYPTOGRAPHIC_USAGE_MASK, supplied['masks']))
        # another object sharing the same multi-valued attribute values, registered first (in reverse
        # order) and modified afterwards: "arbitrary interleavings with other operations"
        other = None
        if supplied['groups'] or supplied['names'] or supplied['appinfo']:
            ro = w.do((1, 4), W.p_register(W.pie_secret(), W.common_attrs(
                list(reversed(supplied['names'])), None, list(reversed(supplied['groups'])),
                list(reversed(supplied['appinfo'])))))
            other = ro.uid() if ro.items[0].ok() else None
        origin = kind.partition('@')[2] or 'register'
        full_kind, kind = kind, kind.partition('@')[0]
        if origin != 'register' and supplied['masks'] is None:
            # the server insists on a usage mask for objects it generates: supply one
            supplied = dict(supplied, masks=[CUM.VERIFY] if kind == 'PublicKey' else [CUM.SIGN])
            attrs.append(W.attr(AT.CRYPTOGRAPHIC_USAGE_MASK, supplied['masks']))
        uid_tag = W.TAG.UNIQUE_IDENTIFIER
        try:
            if origin == 'register':
                item = W.p_register(W.KINDS[kind](), attrs)
            elif origin == 'create':
                item = W.p_create(W.sym_attrs(masks=None) + attrs)
            elif origin == 'derive':
                rb = w.do((1, 4), W.p_register(W.pie_symmetric(b'\x5a' * 16), [
                    W.attr(AT.CRYPTOGRAPHIC_USAGE_MASK, [CUM.DERIVE_KEY])]))
                w.do((1, 4), W.p_activate(rb.uid()))
                item = W.p_derive_key([rb.uid()], attrs=W.sym_attrs(masks=None) + attrs)
            else:   # one half of a generated pair: the supplied attributes go into that half's template
                pa = W.rsa_pair_attrs()
                mine = 'public' if kind == 'PublicKey' else 'private'
                theirs = 'private' if mine == 'public' else 'public'
                pa[theirs] = [W.attr(
                    AT.CRYPTOGRAPHIC_USAGE_MASK, [CUM.SIGN] if mine == 'public' else [CUM.VERIFY])]
                if origin == 'pair':
                    pa[mine] = list(attrs)
                elif origin == 'pairo':
                    # this half's own template carries the supplied attributes while the COMMON template
                    # says otherwise for the single-valued ones: the half's own value governs
                    pa[mine] = list(attrs)
                    pa['common'] = pa['common'] + W.common_attrs(
                        [], None if supplied['policy'] is None else
                        ('default' if supplied['policy'] != 'default' else 'open'), [], [],
                        None if supplied['sensitive'] is None else not supplied['sensitive'])
                else:
                    # pairc: the supplied attributes arrive in the COMMON template (the usage mask stays in
                    # this half's own); paircx: the other half's template moreover carries its own values
                    # for the same attributes - which concern the other half only
                    own_mask = [a for a in attrs if a.attribute_name.value == 'Cryptographic Usage Mask']
                    pa[mine] = own_mask
                    pa['common'] = pa['common'] + [a for a in attrs if a not in own_mask]
                    if origin == 'paircx':
                        pa[theirs] = pa[theirs] + W.common_attrs(
                            ['their-' + n for n in supplied['names']], None,
                            ['their-' + g for g in supplied['groups']],
                            [(ns, 'their-' + d) for ns, d in supplied['appinfo']],
                            None if supplied['sensitive'] is None else not supplied['sensitive'])
                item = W.p_create_key_pair(**pa)
                uid_tag = (W.TAG.PUBLIC_KEY_UNIQUE_IDENTIFIER if mine == 'public'
                           else W.TAG.PRIVATE_KEY_UNIQUE_IDENTIFIER)
            r = w.do(version, item)
        except Exception:   # noqa - not expressible under this version (e.g. policy name / sensitive)
            part.count('unencodable')
            return
        ctx = {'kind': full_kind, 'supplied': {k: (str(v) if k == 'masks' else v) for k, v in supplied.items()},
               'version': list(version), 'restart': restart}
        if not r.items[0].ok():
            part.count('refused')
            return
        part.count('origin_' + origin)
        uid = r.pfind(uid_tag)
        if other:
            if supplied['groups']:
                w.do((1, 4), W.p_modify_attribute_1x(other, AT.OBJECT_GROUP, 'renamed-group', 0))
            if supplied['names']:
                w.do((1, 4), W.p_modify_attribute_1x(other, AT.NAME, 'renamed-name', 0))
            if supplied['appinfo']:
                w.do((1, 4), W.p_delete_attribute_1x(other, 'Application Specific Information', 0))
        if restart:
            w.restart(clean=True)
        W.CLOCK.advance(500)
        # expected attribute multiset
        exp = {'Unique Identifier': [uid], 'Object Type': ['*'], 'Initial Date': [W.T0 + 77]}
        crypto = kind != 'OpaqueObject'
        if crypto:
            exp['State'] = [E.State.PRE_ACTIVE.value]
            m = 0
            for x in (supplied['masks'] or []):
                m |= x.value
            exp['Cryptographic Usage Mask'] = [m]
        if kind in ('SymmetricKey', 'PublicKey', 'PrivateKey', 'SplitKey'):
            exp['Cryptographic Algorithm'] = ['*']
            exp['Cryptographic Length'] = ['*']
        if kind == 'Certificate':
            exp['Certificate Type'] = [E.CertificateType.X_509.value]
        exp['Operation Policy Name'] = [supplied['policy'] or 'default']
        exp['Sensitive'] = [bool(supplied['sensitive'])]
        if supplied['names']:
            exp['Name'] = list(supplied['names'])
        if supplied['groups']:
            exp['Object Group'] = list(supplied['groups'])
        if supplied['appinfo']:
            exp['Application Specific Information'] = [list(x) for x in supplied['appinfo']]
        exp_all = exp
        # the registering version first, then every other version on the SAME long-lived engine
        # (ascending without restart, descending after a restart): what an object reports under a
        # version may not depend on which versions were served before
        others = [v for v in W.VERSIONS if v != tuple(version)]
        order = [tuple(version)] + (others if not restart else list(reversed(others)))
        for rv in order:
            exp = {k: v for k, v in exp_all.items() if V.attribute_status(k, rv) in ('defined', 'deprecated')
                   or k == 'Operation Policy Name' and rv < (2, 0)}
            if rv >= (2, 0):
                exp.pop('Operation Policy Name', None)
            got = _get_attributes(w, uid, rv)
            lst = _get_attribute_list(w, uid, rv)
            part.count('attribute_cases')
            part.counters.setdefault('_out', set()).add((kind, rv, tuple(sorted(got or {}))))
            rctx = dict(ctx, read_version=list(rv), read_order=[list(x) for x in order])
            how = "KMIP %d.%d (registered under %d.%d, %d-th version read on this engine)" % (
                rv[0], rv[1], version[0], version[1], order.index(rv) + 1)
            if got is None or lst is None:
                part.violation("attributes-unreadable|%s" % kind, "GetAttributes/List failed for %s under %s" % (
                    kind, how), rctx)
                return
            for name in sorted(set(exp) | set(got)):
                e, g = exp.get(name), got.get(name)
                if e is None:
                    part.violation("attribute-extra|%s" % name, "%s under %s reports '%s'=%r that was neither "
                                   "supplied nor server-assigned" % (kind, how, name, g), rctx)
                elif g is None:
                    part.violation("attribute-missing|%s" % name, "%s under %s does not report '%s' (expected %r)"
                                   % (kind, how, name, e), rctx)
                elif e != ['*'] and e != g:
                    part.violation("attribute-value|%s" % name, "%s under %s: '%s' is %r, supplied/assigned %r" % (
                        kind, how, name, g, e), rctx)
            if sorted(set(lst)) != sorted(set(got)) or len(lst) != len(set(lst)) and rv >= (2, 0):
                part.violation("attribute-list-disagrees|%s" % kind, "GetAttributeList %s vs GetAttributes %s "
                               "under %s" % (sorted(lst), sorted(got), how), rctx)
    finally:
        w.close()


def _get_attributes(w, uid, version):
    r = w.do(version, W.p_get_attributes(uid))
    if not r.items[0].ok():
        return None
    out = {}
    p = r.items[0].payload

    def put(name, node):
        if name == 'Name':
            v = ttlv.find(node, T.NAME_VALUE.value)[2]
        elif name == 'Application Specific Information':
            v = [ttlv.find(node, T.APPLICATION_NAMESPACE.value)[2], ttlv.find(node, T.APPLICATION_DATA.value)[2]]
        else:
            v = node[2]
        out.setdefault(name, []).append(v)
    for a in ttlv.find_all(p, T.ATTRIBUTE.value):
        put(ttlv.find(a, T.ATTRIBUTE_NAME.value)[2], ttlv.find(a, T.ATTRIBUTE_VALUE.value))
    for a in ttlv.find_all(p, T.ATTRIBUTES.value):
        for c in a[2]:
            put(V.TAG_TO_ATTRIBUTE.get(c[0], 'tag:%06x' % c[0]), c)
    return out


def _get_attribute_list(w, uid, version):
    r = w.do(version, W.p_get_attribute_list(uid))
    if not r.items[0].ok():
        return None
    return c19._attr_list(r.items[0].payload)


def supplied_menu():
    base_ = dict(names=[], groups=[], appinfo=[], sensitive=None, masks=None, policy=None)
    out = [dict(base_)]
    devs = [('names', ['a']), ('names', ['a', 'b']), ('names', ['', 'é']), ('groups', ['g']),
            ('groups', ['g', 'h', 'g2']), ('appinfo', [('ns', 'd')]), ('appinfo', [('ns', 'd'), ('ns2', 'e')]),
            ('sensitive', True), ('sensitive', False), ('masks', []), ('masks', [CUM.ENCRYPT]),
            ('masks', list(CUM)), ('policy', 'open'), ('policy', 'default'),
            # a flag named twice is still one flag (the mask is a set of bits, not a sum)
            ('masks', [CUM.ENCRYPT, CUM.DECRYPT, CUM.ENCRYPT]), ('masks', [CUM.SIGN, CUM.SIGN])]
    for k, v in devs:
        out.append(dict(base_, **{k: v}))
    for (k1, v1), (k2, v2) in itertools.combinations(devs, 2):
        if k1 != k2:
            out.append(dict(base_, **{k1: v1, k2: v2}))
    return out


def _worker(task):
    kind, arg = task
    part = Part()
    if kind == 'fidelity':
        entries, combos = arg
        menu = dict(objects_menu('thorough'))
        for label in entries:
            for version, restart, inter in combos:
                fidelity_case(label, menu[label], version, restart, inter, part)
        part.sample({'objects': entries[:3], 'combos': len(combos)})
    else:
        kinds, sups, combos = arg
        for k in kinds:
            for s in sups:
                for version, restart in combos:
                    attribute_case(k, s, version, restart, part)
        part.sample({'kinds': kinds, 'supplied_sets': len(sups)})
    out = part.as_dict()
    out['out'] = len(part.counters.pop('_out', set()))
    return out


def run(tier, seed):
    rep = Reporter('C05', 'exploration', tier, seed)
    labels = [l for l, f in objects_menu(tier)]
    if tier == 'quick':
        combos = [((1, 2), None, 'none'), ((2, 0), 'clean', 'none'), ((1, 4), 'kill', 'create-other'),
                  ((1, 0), None, 'destroy-other'), ((1, 2), 'clean', 'reads-then-commit')]
        acombos = [((1, 0), False), ((1, 2), True), ((1, 4), False), ((2, 0), True)]
    else:
        combos = [(v, r, i) for v in W.VERSIONS for r in (None, 'clean', 'kill') for i in INTERLEAVE]
        acombos = [(v, r) for v in W.VERSIONS for r in (False, True)]
    n = 32
    tasks = [('fidelity', (labels[i::n], combos)) for i in range(n) if labels[i::n]]
    sups = supplied_menu()
    for k in list(W.KINDS) + ['SymmetricKey@create', 'SymmetricKey@derive', 'PublicKey@pair',
                              'PrivateKey@pair', 'PublicKey@pairc', 'PrivateKey@pairc', 'PublicKey@paircx',
                              'PrivateKey@paircx', 'PublicKey@pairo', 'PrivateKey@pairo']:
        for j in range(2):
            tasks.append(('attributes', ([k], sups[j::2], acombos)))
    distinct = 0
    for part in pmap(_worker, tasks):
        distinct += part.pop('out', 0)
        rep.merge(part)
    rt = rep.counters.get('round_trips', 0)
    ac = rep.counters.get('attribute_cases', 0)
    origins = {k[7:]: v for k, v in rep.counters.items() if k.startswith('origin_')}
    if rt < 400 or ac < 1000 or len(origins) < 4 or min(origins.values()) < 50:
        rep.harness_error("vacuous: %d round trips, %d attribute cases, origins %s" % (rt, ac, origins))
    return rep.finish(dict(
        evaluations=rt + ac, distinct_nontrivial=distinct, objects_by_origin=origins,
        rule="fidelity: %d object shapes (0/1 deviations from a default per kind: value length and "
             "pattern, every algorithm, every key-wrapping-data field present/falsy/absent, masks, names, "
             "key formats, split-key field menus incl. large primes, every secret/opaque data type x "
             "lengths, certificate) x %d (version, restart, interleaved operation) combinations through "
             "the client and the real server; attributes: 7 registered kinds + created and derived "
             "symmetric keys + each half of a generated key pair (objects_by_origin) x 106 "
             "supplied-attribute sets (0/1/2 deviations) x %d (version, restart) combinations, each "
             "object then read (GetAttributes + GetAttributeList) under all six versions on the same "
             "long-lived engine, ascending without and descending after a restart. distinct_nontrivial = distinct (kind, "
             "outcome) and (kind, version, reported attribute set) classes" % (len(labels), len(combos), len(acombos)),
        round_trips=rt, attribute_cases=ac, refused_by_server=rep.counters.get('refused', 0),
        exhaustive=False, deviation_bound_completed=1 if tier == 'quick' else 2,
    ), assumptions=[
        "objects the server refuses to register are outside the property (counted as refused)",
        "always-has-value defaults (Sensitive=False from 1.4 on, usage mask 0 for cryptographic objects, "
        "policy name 'default') count as server-assigned",
        "time is a logical clock; 'at any later time' is a clock advance plus a restart",
    ])


def replay(doc):
    part = Part()
    if 'object' in doc:
        menu = dict(objects_menu('thorough'))
        fidelity_case(doc['object'], menu[doc['object']], tuple(doc['version']), doc['restart'],
                      doc['interleave'], part)
    else:
        return False, 're-run the check for attribute cases'
    v = part.violations
    return bool(v), '\n'.join("%s: %s" % (k, t) for k, t, _ in v[:20]) or 'no violation'
