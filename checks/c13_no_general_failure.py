"""C13 - well-formed requests never hit the server's internal-error path.

Deviation-bounded exhaustive grid: operation x stored object kind x lifecycle state x KMIP version x
parameter menu (valid, each optional parameter absent, inapplicable to the type, every attribute
name of the rule table and names outside it, every member of the algorithm / mode / padding / hash /
derivation enumerations supported or not, boundary indices and lengths), each request well-formed
(encoded and decoded by the library's own codec) and executed on a clone of a real store.
Oracle: no General Failure answer and no "Error occurred while processing operation." log record.
"""
import itertools
import logging
import re

from mc import world as W
from mc.world import enums, CUM, AT
from mc.report import Reporter, Part
from mc.par import pmap

E = enums
RR = E.ResultReason
ALG = E.CryptographicAlgorithm
MODE = E.BlockCipherMode
PAD = E.PaddingMethod
HASH = E.HashingAlgorithm
W.use_rsa_pool()

KINDS = ['SymmetricKey', 'PublicKey', 'PrivateKey', 'SplitKey', 'SecretData', 'Certificate',
         'OpaqueObject']
ALLM = list(CUM)


def build_store():
    """uids: kind -> {'pre': uid, 'act': uid}; helpers: kek (active AES, all masks)."""
    W.CLOCK.now = W.T0
    pol = W.default_policies({'open': W.OPEN_POLICY})
    w = W.World(policies=pol)
    uids = {}
    for k in KINDS:
        uids[k] = {}
        for st in ('pre', 'act'):
            attrs = W.common_attrs(names=['%s-%s' % (k, st)], groups=['g'], appinfo=[('ns', 'd')])
            if k != 'OpaqueObject':
                attrs.append(W.attr(AT.CRYPTOGRAPHIC_USAGE_MASK, ALLM))
            r = w.do((1, 4), W.p_register(W.KINDS[k](), attrs))
            assert r.items[0].ok(), r.brief()
            uids[k][st] = r.uid()
            if st == 'act' and k != 'OpaqueObject':
                w.do((1, 4), W.p_activate(uids[k][st]))
    r = w.do((1, 4), W.p_register(W.pie_symmetric(b'\x21' * 16), [W.attr(AT.CRYPTOGRAPHIC_USAGE_MASK, ALLM)]))
    kek = r.uid()
    w.do((1, 4), W.p_activate(kek))
    # a key with no usage mask at all, one deactivated, one compromised
    r = w.do((1, 4), W.p_register(W.pie_symmetric(b'\x22' * 16), []))
    uids['SymmetricKey']['nomask'] = r.uid()
    for st, code in (('deact', E.RevocationReasonCode.SUPERSEDED), ('comp', E.RevocationReasonCode.KEY_COMPROMISE)):
        r = w.do((1, 4), W.p_register(W.pie_symmetric(b'\x23' * 16), [W.attr(AT.CRYPTOGRAPHIC_USAGE_MASK, ALLM)]))
        u = r.uid()
        w.do((1, 4), W.p_activate(u))
        w.do((1, 4), W.p_revoke(u, code))
        uids['SymmetricKey'][st] = u
    # objects of the kinds WITHOUT a key block whose value has a size a key wrap accepts (16 bytes):
    # parameter checks that reject the usual fixtures early never get past them
    from kmip.pie import objects as pobjects
    for k, obj in (('OpaqueObject', W.pie_opaque(b'\x31' * 16)),
                   ('Certificate', pobjects.X509Certificate(b'\x32' * 16)),
                   ('SecretData', W.pie_secret(b'\x33' * 16))):
        attrs = [] if k == 'OpaqueObject' else [W.attr(AT.CRYPTOGRAPHIC_USAGE_MASK, ALLM)]
        r = w.do((1, 4), W.p_register(obj, attrs))
        assert r.items[0].ok(), r.brief()
        uids[k]['w16'] = r.uid()
        if k != 'OpaqueObject':
            w.do((1, 4), W.p_activate(r.uid()))
    return w, uids, kek


ATTR_VALUES = {
    'Unique Identifier': '1', 'Name': 'nm', 'Object Type': E.ObjectType.SYMMETRIC_KEY,
    'Cryptographic Algorithm': ALG.AES, 'Cryptographic Length': 128,
    'Cryptographic Parameters': {'block_cipher_mode': MODE.CBC}, 'Certificate Type': E.CertificateType.X_509,
    'Certificate Length': 10, 'Operation Policy Name': 'default',
    'Cryptographic Usage Mask': [CUM.ENCRYPT], 'Lease Time': 10, 'State': E.State.ACTIVE,
    'Initial Date': W.T0, 'Activation Date': W.T0, 'Process Start Date': W.T0, 'Protect Stop Date': W.T0,
    'Deactivation Date': W.T0, 'Destroy Date': W.T0, 'Compromise Occurrence Date': W.T0,
    'Compromise Date': W.T0, 'Archive Date': W.T0, 'Object Group': 'g', 'Fresh': True,
    'Application Specific Information': {"application_namespace": "ns", "application_data": "d"},
    'Contact Information': 'me', 'Last Change Date': W.T0, 'Sensitive': True, 'Digest': None,
    'x-custom': 'v',
}
ALL_ATTR_NAMES = list(ATTR_VALUES) + [
    'Cryptographic Domain Parameters', 'X.509 Certificate Identifier', 'X.509 Certificate Subject',
    'X.509 Certificate Issuer', 'Certificate Identifier', 'Certificate Subject', 'Certificate Issuer',
    'Digital Signature Algorithm', 'Usage Limits', 'Revocation Reason', 'Link', 'Custom Attribute',
    'Always Sensitive', 'Extractable', 'Never Extractable', 'No Such Attribute']


def cp(**kw):
    return W.crypto_params(**kw)


def probes(uid, kek, kind):
    """Yield (label, version-class, item). version-class: 'any' | '1x' | '20'."""
    P = []

    def add(label, item, vc='any'):
        P.append((label, vc, item))

    # ---- Get and friends
    add('get', lambda: W.p_get(uid))
    for f in E.KeyFormatType:
        add('get|format=%s' % f.name, (lambda f=f: W.p_get(uid, key_format_type=f)))
    for c in E.KeyCompressionType:
        add('get|compression=%s' % c.name, (lambda c=c: W.p_get(uid, compression=c)))
    for m in (MODE.NIST_KEY_WRAP, MODE.CBC, MODE.GCM, None):
        add('get|wrap-mode=%s' % (m.name if m else None),
            (lambda m=m: W.p_get(uid, wrapping_spec=W.wrapping_spec(kek, mode=m))))
    add('get|wrap-no-params', lambda: W.p_get(uid, wrapping_spec=W.cobjects.KeyWrappingSpecification(
        wrapping_method=E.WrappingMethod.ENCRYPT,
        encryption_key_information=W.cobjects.EncryptionKeyInformation(unique_identifier=kek),
        encoding_option=E.EncodingOption.NO_ENCODING)))
    add('get|wrap-no-encoding-option', lambda: W.p_get(uid, wrapping_spec=W.wrapping_spec(kek, encoding=None)))
    add('get|wrap-ttlv-encoding', lambda: W.p_get(uid, wrapping_spec=W.wrapping_spec(
        kek, encoding=E.EncodingOption.TTLV_ENCODING)))
    add('get|wrap-attribute-names', lambda: W.p_get(uid, wrapping_spec=W.wrapping_spec(
        kek, attribute_names=['Name'])))
    for wm in E.WrappingMethod:
        add('get|wrap-method=%s' % wm.name, (lambda wm=wm: W.p_get(uid, wrapping_spec=W.wrapping_spec(kek, method=wm))))
    add('get|wrap-mac-key-info', lambda: W.p_get(uid, wrapping_spec=W.cobjects.KeyWrappingSpecification(
        wrapping_method=E.WrappingMethod.MAC_SIGN,
        mac_signature_key_information=W.cobjects.MACSignatureKeyInformation(unique_identifier=kek),
        encoding_option=E.EncodingOption.NO_ENCODING)))
    add('get|wrap-no-key-info', lambda: W.p_get(uid, wrapping_spec=W.cobjects.KeyWrappingSpecification(
        wrapping_method=E.WrappingMethod.ENCRYPT, encoding_option=E.EncodingOption.NO_ENCODING)))
    add('get|wrapped-by-it', lambda: W.p_get(kek, wrapping_spec=W.wrapping_spec(uid)))
    add('get|wrap-missing-kek', lambda: W.p_get(uid, wrapping_spec=W.wrapping_spec('424242')))
    add('get_attributes', lambda: W.p_get_attributes(uid))
    add('get_attributes|empty-list', lambda: W.p_get_attributes(uid, []))
    for n in ALL_ATTR_NAMES:
        add('get_attributes|name=%s' % n, (lambda n=n: W.p_get_attributes(uid, [n])))
    add('get_attributes|dup', lambda: W.p_get_attributes(uid, ['Name', 'Name']))
    add('get_attribute_list', lambda: W.p_get_attribute_list(uid))
    # ---- lifecycle
    add('activate', lambda: W.p_activate(uid))
    for c in E.RevocationReasonCode:
        add('revoke|%s' % c.name, (lambda c=c: W.p_revoke(uid, c)))
    add('revoke|dated', lambda: W.p_revoke(uid, E.RevocationReasonCode.KEY_COMPROMISE, 'm', W.T0 - 9))
    add('destroy', lambda: W.p_destroy(uid))
    # ---- attributes
    for n, v in ATTR_VALUES.items():
        if n == 'Digest':
            continue
        at = AT(n) if n in [a.value for a in AT] else n
        for idx in (None, 0, 1, 5, -1):
            add('modify_1x|%s|idx=%s' % (n, idx), (lambda at=at, v=v, idx=idx: W.p_modify_attribute_1x(uid, at, v, idx)), '1x')
        add('modify_20|%s' % n, (lambda at=at, v=v: W.p_modify_attribute_20(uid, at, v)), '20')
        add('modify_20|%s|current' % n, (lambda at=at, v=v: W.p_modify_attribute_20(uid, at, v, v)), '20')
        add('set_20|%s' % n, (lambda at=at, v=v: W.p_set_attribute(uid, at, v)), '20')
        add('delete_20|%s|current' % n, (lambda at=at, v=v: W.p_delete_attribute_20(uid, at, v)), '20')
    # the current attribute naming ANOTHER attribute than the new one (legal for the codec)
    MIX = [('Name', 'nm'), ('Object Group', 'g'), ('Sensitive', True),
           ('Application Specific Information', ATTR_VALUES['Application Specific Information']),
           ('Cryptographic Algorithm', ALG.AES), ('State', E.State.ACTIVE)]
    for (n1, v1) in MIX:
        for (n2, v2) in MIX:
            if n1 != n2:
                add('modify_20|%s|current-is-%s' % (n2, n1), (lambda n1=n1, v1=v1, n2=n2, v2=v2: (
                    W.OP.MODIFY_ATTRIBUTE, W.payloads.ModifyAttributeRequestPayload(
                        unique_identifier=uid,
                        current_attribute=W.cobjects.CurrentAttribute(attribute=W.attr_value(AT(n1), v1)),
                        new_attribute=W.cobjects.NewAttribute(attribute=W.attr_value(AT(n2), v2))))), '20')
    for n in ALL_ATTR_NAMES:
        for idx in (None, 0, 1, 5, -1):
            add('delete_1x|%s|idx=%s' % (n, idx), (lambda n=n, idx=idx: W.p_delete_attribute_1x(uid, n, idx)), '1x')
        if n in [a.value for a in AT]:
            add('delete_20|%s|ref' % n, (lambda n=n: W.p_delete_attribute_20(uid, AT(n))), '20')
    add('delete_20|unknown-ref', lambda: W.p_delete_attribute_20(uid, 'No Such Attribute'), '20')
    add('delete_1x|no-name', lambda: W.p_delete_attribute_1x(uid, None, 0), '1x')
    # ---- crypto
    base = dict(cryptographic_algorithm=ALG.AES, block_cipher_mode=MODE.CBC, padding_method=PAD.PKCS5)
    iv16 = b'\x00' * 16
    for a in ALG:
        add('encrypt|alg=%s' % a.name, (lambda a=a: W.p_encrypt(uid, cp(**dict(base, cryptographic_algorithm=a)), b'x' * 16, iv16)))
        add('decrypt|alg=%s' % a.name, (lambda a=a: W.p_decrypt(uid, cp(**dict(base, cryptographic_algorithm=a)), b'x' * 16, iv16)))
        add('mac|alg=%s' % a.name, (lambda a=a: W.p_mac(uid, cp(cryptographic_algorithm=a))))
    for m in list(MODE) + [None]:
        mn = m.name if m else None
        add('encrypt|mode=%s' % mn, (lambda m=m: W.p_encrypt(uid, cp(**dict(base, block_cipher_mode=m)), b'x' * 16, iv16)))
        add('encrypt|mode=%s|no-iv' % mn, (lambda m=m: W.p_encrypt(uid, cp(**dict(base, block_cipher_mode=m)), b'x' * 16, None)))
        add('decrypt|mode=%s' % mn, (lambda m=m: W.p_decrypt(uid, cp(**dict(base, block_cipher_mode=m)), b'x' * 16, iv16)))
        add('decrypt|mode=%s|no-iv' % mn, (lambda m=m: W.p_decrypt(uid, cp(**dict(base, block_cipher_mode=m)), b'x' * 16, None)))
    for p in list(PAD) + [None]:
        pn = p.name if p else None
        add('encrypt|pad=%s' % pn, (lambda p=p: W.p_encrypt(uid, cp(**dict(base, padding_method=p)), b'x' * 15, iv16)))
        add('decrypt|pad=%s' % pn, (lambda p=p: W.p_decrypt(uid, cp(**dict(base, padding_method=p)), b'x' * 16, iv16)))
    for n in (0, 1, 8, 15, 17, 32):
        add('encrypt|iv-len=%d' % n, (lambda n=n: W.p_encrypt(uid, cp(**base), b'x' * 16, b'\x01' * n)))
        add('decrypt|iv-len=%d' % n, (lambda n=n: W.p_decrypt(uid, cp(**base), b'x' * 16, b'\x01' * n)))
        add('encrypt|data-len=%d' % n, (lambda n=n: W.p_encrypt(uid, cp(**base), b'x' * n, iv16)))
        add('decrypt|data-len=%d' % n, (lambda n=n: W.p_decrypt(uid, cp(**base), b'x' * n, iv16)))
    gcm = dict(cryptographic_algorithm=ALG.AES, block_cipher_mode=MODE.GCM)
    for tl in (None, 0, 4, 12, 16, 17, 255):
        add('encrypt|gcm|tag-len=%s' % tl, (lambda tl=tl: W.p_encrypt(uid, cp(**dict(gcm, tag_length=tl)), b'x' * 20, b'\x01' * 12, b'aad')))
    for tag in (None, b'', b'\x00' * 4, b'\x00' * 16, b'\x00' * 17):
        add('decrypt|gcm|tag=%s' % (len(tag) if tag is not None else None),
            (lambda tag=tag: W.p_decrypt(uid, cp(**gcm), b'x' * 20, b'\x01' * 12, b'aad', tag)))
    for ivn in (None, 0, 1, 12, 16):
        add('encrypt|gcm|iv-len=%s' % ivn, (lambda ivn=ivn: W.p_encrypt(
            uid, cp(**dict(gcm, tag_length=16)), b'x' * 20, None if ivn is None else b'\x01' * ivn)))
    add('encrypt|no-params', lambda: W.p_encrypt(uid, None))
    add('decrypt|no-params', lambda: W.p_decrypt(uid, None))
    add('encrypt|empty-params', lambda: W.p_encrypt(uid, cp()))
    add('encrypt|no-alg', lambda: W.p_encrypt(uid, cp(block_cipher_mode=MODE.CBC), b'x' * 16, iv16))
    add('mac|no-params', lambda: W.p_mac(uid, None))
    add('mac|empty-data', lambda: W.p_mac(uid, 'default', b''))
    add('mac|no-data', lambda: W.p_mac(uid, 'default', None))
    sgn = dict(cryptographic_algorithm=ALG.RSA, hashing_algorithm=HASH.SHA_256, padding_method=PAD.PKCS1v15)
    for p in list(PAD) + [None]:
        add('sign|pad=%s' % (p.name if p else None), (lambda p=p: W.p_sign(uid, cp(**dict(sgn, padding_method=p)))))
        add('verify|pad=%s' % (p.name if p else None), (lambda p=p: W.p_signature_verify(uid, cp(**dict(sgn, padding_method=p)))))
    for h in list(HASH) + [None]:
        add('sign|hash=%s' % (h.name if h else None), (lambda h=h: W.p_sign(uid, cp(**dict(sgn, hashing_algorithm=h)))))
        add('verify|hash=%s' % (h.name if h else None), (lambda h=h: W.p_signature_verify(uid, cp(**dict(sgn, hashing_algorithm=h)))))
        add('sign|pss|hash=%s' % (h.name if h else None), (lambda h=h: W.p_sign(uid, cp(**dict(sgn, padding_method=PAD.PSS, hashing_algorithm=h)))))
    for a in ALG:
        add('sign|alg=%s' % a.name, (lambda a=a: W.p_sign(uid, cp(**dict(sgn, cryptographic_algorithm=a)))))
    for d in E.DigitalSignatureAlgorithm:
        add('sign|dsa=%s' % d.name, (lambda d=d: W.p_sign(uid, cp(digital_signature_algorithm=d, padding_method=PAD.PKCS1v15))))
        add('verify|dsa=%s' % d.name, (lambda d=d: W.p_signature_verify(uid, cp(digital_signature_algorithm=d, padding_method=PAD.PKCS1v15))))
    add('sign|no-params', lambda: W.p_sign(uid, None))
    add('sign|empty-params', lambda: W.p_sign(uid, cp()))
    add('sign|empty-data', lambda: W.p_sign(uid, 'default', b''))
    add('verify|no-params', lambda: W.p_signature_verify(uid, None))
    for n in (0, 1, 127, 128, 129):
        add('verify|sig-len=%d' % n, (lambda n=n: W.p_signature_verify(uid, 'default', b'm', b'\x01' * n)))
    # ---- derive
    DM = E.DerivationMethod
    for m in DM:
        for h in (HASH.SHA_256, HASH.MD5, HASH.SHA3_256, None):
            params = (lambda m=m, h=h: W.cattrs.DerivationParameters(
                cryptographic_parameters=cp(hashing_algorithm=h, cryptographic_algorithm=ALG.AES,
                                            block_cipher_mode=MODE.CBC, padding_method=PAD.PKCS5),
                derivation_data=b'data' * 4, salt=b'salt', iteration_count=10,
                initialization_vector=iv16))
            add('derive|%s|hash=%s' % (m.name, h.name if h else None),
                (lambda m=m, params=params: W.p_derive_key([uid], m, params=params())))
    # every derivation method x presence lattice of the derivation parameters
    for m in DM:
        for bits in range(32):
            kw = {}
            if bits & 1:
                kw['cryptographic_parameters'] = cp(hashing_algorithm=HASH.SHA_256, cryptographic_algorithm=ALG.AES,
                                                    block_cipher_mode=MODE.CBC, padding_method=PAD.PKCS5)
            if bits & 2:
                kw['derivation_data'] = b'data' * 4
            if bits & 4:
                kw['salt'] = b'salt'
            if bits & 8:
                kw['iteration_count'] = 3
            if bits & 16:
                kw['initialization_vector'] = iv16
            if bits == 31:
                continue        # the full form is above
            add('derive|%s|present=%s' % (m.name, '+'.join(sorted(k[:4] for k in kw)) or 'none'),
                (lambda m=m, kw=kw: W.p_derive_key([uid], m, params=W.cattrs.DerivationParameters(**kw))))
    # ... and cryptographic parameters that lack exactly one of their fields (whatever the engine takes
    # from the keying object instead has to exist on every kind of keying object)
    full = dict(hashing_algorithm=HASH.SHA_256, cryptographic_algorithm=ALG.AES, block_cipher_mode=MODE.CBC,
                padding_method=PAD.PKCS5)
    for m in DM:
        for missing in full:
            for rest in (dict(derivation_data=b'data' * 4, salt=b'salt', iteration_count=3,
                              initialization_vector=iv16), dict(derivation_data=b'data' * 4)):
                kwcp = {k: v for k, v in full.items() if k != missing}
                add('derive|%s|params-without=%s|%s' % (m.name, missing, 'all' if len(rest) > 1 else 'data'),
                    (lambda m=m, kwcp=kwcp, rest=rest: W.p_derive_key([uid], m, params=W.cattrs.DerivationParameters(
                        cryptographic_parameters=cp(**kwcp), **rest))))
    for ln in (0, 8, 64, 128, 129, 256, 2 ** 20):
        add('derive|length=%d' % ln, (lambda ln=ln: W.p_derive_key([uid], attrs=W.sym_attrs(length=ln))))
    add('derive|no-derivation-data', lambda: W.p_derive_key([uid], params=W.cattrs.DerivationParameters(
        cryptographic_parameters=cp(hashing_algorithm=HASH.SHA_256))))
    add('derive|no-crypto-params', lambda: W.p_derive_key([uid], params=W.cattrs.DerivationParameters(
        derivation_data=b'd')))
    add('derive|pbkdf2-no-salt', lambda: W.p_derive_key([uid], DM.PBKDF2, params=W.cattrs.DerivationParameters(
        cryptographic_parameters=cp(hashing_algorithm=HASH.SHA_256), iteration_count=1)))
    add('derive|pbkdf2-no-iterations', lambda: W.p_derive_key([uid], DM.PBKDF2, params=W.cattrs.DerivationParameters(
        cryptographic_parameters=cp(hashing_algorithm=HASH.SHA_256), salt=b's')))
    add('derive|two-bases', lambda: W.p_derive_key([kek, uid], params=W.cattrs.DerivationParameters(
        cryptographic_parameters=cp(hashing_algorithm=HASH.SHA_256))))
    add('derive|no-bases', lambda: W.p_derive_key([]))
    add('derive|secret-data', lambda: W.p_derive_key([uid], object_type=E.ObjectType.SECRET_DATA))
    add('derive|secret-data-no-length', lambda: W.p_derive_key(
        [uid], object_type=E.ObjectType.SECRET_DATA, attrs=[]))
    add('derive|to-certificate', lambda: W.p_derive_key([uid], object_type=E.ObjectType.CERTIFICATE))
    add('derive|no-algorithm', lambda: W.p_derive_key([uid], attrs=[W.attr(AT.CRYPTOGRAPHIC_LENGTH, 128)]))
    return P


def object_free_probes():
    P = []

    def add(label, item, vc='any'):
        P.append((label, vc, item))
    for a in ALG:
        for ln in (0, 1, 7, 40, 56, 64, 100, 112, 128, 168, 192, 256, 384, 448, 512, 1024, 2048, 2 ** 31 - 1):
            add('create|alg=%s|len=%d' % (a.name, ln), (lambda a=a, ln=ln: W.p_create(W.sym_attrs(a, ln))))
    add('create|no-mask', lambda: W.p_create(W.sym_attrs(masks=None)))
    add('create|no-attrs', lambda: W.p_create([]))
    add('create|no-length', lambda: W.p_create([W.attr(AT.CRYPTOGRAPHIC_ALGORITHM, ALG.AES),
                                                W.attr(AT.CRYPTOGRAPHIC_USAGE_MASK, [CUM.ENCRYPT])]))
    for ot in E.ObjectType:
        add('create|type=%s' % ot.name, (lambda ot=ot: W.p_create(W.sym_attrs(), ot)))
    for n, v in ATTR_VALUES.items():
        if n in ('Digest', 'Cryptographic Algorithm', 'Cryptographic Length', 'Cryptographic Usage Mask'):
            continue
        at = AT(n) if n in [a.value for a in AT] else n
        add('create|extra-attr=%s' % n, (lambda at=at, v=v: W.p_create(W.sym_attrs(extra=[W.attr(at, v)]))))
        add('create|extra-attr=%s|idx=1' % n, (lambda at=at, v=v: W.p_create(W.sym_attrs(extra=[W.attr(at, v, 1)]))))
        add('register|extra-attr=%s' % n, (lambda at=at, v=v: W.p_register(W.pie_secret(), [W.attr(at, v)])))
    add('create|dup-names', lambda: W.p_create(W.sym_attrs(names=['d', 'd'])))
    add('create|two-algs', lambda: W.p_create(W.sym_attrs(extra=[W.attr(AT.CRYPTOGRAPHIC_ALGORITHM, ALG.DES)])))
    add('create|name-index-gap', lambda: W.p_create(W.sym_attrs(extra=[W.attr(AT.NAME, 'a', 5)])))
    add('create|names-no-index', lambda: W.p_create(W.sym_attrs(extra=[W.attr(AT.NAME, 'a'), W.attr(AT.NAME, 'b')])))
    for a in ALG:
        for ln in (512, 1024):
            add('keypair|alg=%s|len=%d' % (a.name, ln), (lambda a=a, ln=ln: W.p_create_key_pair(
                common=[W.attr(AT.CRYPTOGRAPHIC_ALGORITHM, a), W.attr(AT.CRYPTOGRAPHIC_LENGTH, ln)],
                private=[W.attr(AT.CRYPTOGRAPHIC_USAGE_MASK, [CUM.SIGN])],
                public=[W.attr(AT.CRYPTOGRAPHIC_USAGE_MASK, [CUM.VERIFY])])))
    for ln in (0, 1, 100, 1025):
        add('keypair|rsa|len=%d' % ln, (lambda ln=ln: W.p_create_key_pair(**W.rsa_pair_attrs(ln))))
    add('keypair|no-templates', lambda: W.p_create_key_pair())
    add('keypair|common-only', lambda: W.p_create_key_pair(common=W.rsa_pair_attrs()['common']))
    add('keypair|mismatch-alg', lambda: W.p_create_key_pair(
        private=[W.attr(AT.CRYPTOGRAPHIC_ALGORITHM, ALG.RSA), W.attr(AT.CRYPTOGRAPHIC_LENGTH, 1024),
                 W.attr(AT.CRYPTOGRAPHIC_USAGE_MASK, [CUM.SIGN])],
        public=[W.attr(AT.CRYPTOGRAPHIC_ALGORITHM, ALG.DSA), W.attr(AT.CRYPTOGRAPHIC_LENGTH, 1024),
                W.attr(AT.CRYPTOGRAPHIC_USAGE_MASK, [CUM.VERIFY])]))
    add('keypair|mismatch-len', lambda: W.p_create_key_pair(
        private=[W.attr(AT.CRYPTOGRAPHIC_ALGORITHM, ALG.RSA), W.attr(AT.CRYPTOGRAPHIC_LENGTH, 1024),
                 W.attr(AT.CRYPTOGRAPHIC_USAGE_MASK, [CUM.SIGN])],
        public=[W.attr(AT.CRYPTOGRAPHIC_ALGORITHM, ALG.RSA), W.attr(AT.CRYPTOGRAPHIC_LENGTH, 2048),
                W.attr(AT.CRYPTOGRAPHIC_USAGE_MASK, [CUM.VERIFY])]))
    # register
    for k in KINDS:
        add('register|%s' % k, (lambda k=k: W.p_register(W.KINDS[k]())))
        add('register|%s|wrong-type' % k, (lambda k=k: W.p_register(W.KINDS[k](), object_type=E.ObjectType.TEMPLATE)))
        add('register|%s|alg-mismatch' % k, (lambda k=k: W.p_register(
            W.KINDS[k](), [W.attr(AT.CRYPTOGRAPHIC_ALGORITHM, ALG.DES)])))
        add('register|%s|len-mismatch' % k, (lambda k=k: W.p_register(
            W.KINDS[k](), [W.attr(AT.CRYPTOGRAPHIC_LENGTH, 7)])))
        add('register|%s|mask' % k, (lambda k=k: W.p_register(
            W.KINDS[k](), [W.attr(AT.CRYPTOGRAPHIC_USAGE_MASK, [CUM.ENCRYPT])])))
        add('register|%s|cert-type' % k, (lambda k=k: W.p_register(
            W.KINDS[k](), [W.attr(AT.CERTIFICATE_TYPE, E.CertificateType.X_509)])))
    add('register|no-object', lambda: (E.Operation.REGISTER, W.payloads.RegisterRequestPayload(
        object_type=E.ObjectType.SYMMETRIC_KEY, template_attribute=W.template([]))))
    for f in E.KeyFormatType:
        add('register|sym|format=%s' % f.name, (lambda f=f: W.p_register(_sym_with_format(f))))
    # key blocks built at the codec level (the object model of the client library refuses to build
    # them, a foreign client does not): declared length x value length, and every key format type for
    # every kind of key
    for kind_, ot_ in (('sym', E.ObjectType.SYMMETRIC_KEY), ('public', E.ObjectType.PUBLIC_KEY),
                       ('private', E.ObjectType.PRIVATE_KEY), ('secret', E.ObjectType.SECRET_DATA)):
        if kind_ != 'secret':
            for f in E.KeyFormatType:
                add('register|core-%s|format=%s' % (kind_, f.name),
                    (lambda kind_=kind_, ot_=ot_, f=f: _core_register(kind_, ot_, fmt=f)))
        add('register|core-%s|no-algorithm' % kind_, (lambda kind_=kind_, ot_=ot_: _core_register(kind_, ot_, no_alg=True)))
        add('register|core-%s|no-algorithm-no-length' % kind_,
            (lambda kind_=kind_, ot_=ot_: _core_register(kind_, ot_, no_alg=True, length=None)))
        for ln in (None, 0, 8, 100, 128, 256, 1024, 2 ** 31 - 1):
            for vl in (None, 0, 1, 16, 17):
                if ln is None and vl is None:
                    continue
                add('register|core-%s|len=%s|value=%s' % (kind_, ln, vl),
                    (lambda kind_=kind_, ot_=ot_, ln=ln, vl=vl: _core_register(kind_, ot_, length=ln, value_len=vl)))
    add('register|sym|len0', lambda: W.p_register(W.pobjects.SymmetricKey(ALG.AES, 0, b'')))
    add('register|sym|huge-length-attr', lambda: W.p_register(W.pie_symmetric(), [
        W.attr(AT.CRYPTOGRAPHIC_LENGTH, 2 ** 31 - 1)]))
    add('register|wrapped', lambda: W.p_register(_wrapped_key()))
    add('register|wrapped-no-params', lambda: W.p_register(_wrapped_key(params=False)))
    add('register|split|prime', lambda: W.p_register(W.pobjects.SplitKey(
        cryptographic_algorithm=ALG.AES, cryptographic_length=128, key_value=b'\x01' * 16,
        split_key_parts=3, key_part_identifier=1, split_key_threshold=2,
        split_key_method=E.SplitKeyMethod.POLYNOMIAL_SHARING_PRIME_FIELD, prime_field_size=2 ** 63 - 1)))
    add('register|split|prime-big', lambda: W.p_register(W.pobjects.SplitKey(
        cryptographic_algorithm=ALG.AES, cryptographic_length=128, key_value=b'\x01' * 16,
        split_key_parts=3, key_part_identifier=1, split_key_threshold=2,
        split_key_method=E.SplitKeyMethod.POLYNOMIAL_SHARING_PRIME_FIELD, prime_field_size=2 ** 64)))
    add('register|template-names', lambda: (E.Operation.REGISTER, W.payloads.RegisterRequestPayload(
        object_type=E.ObjectType.SECRET_DATA,
        template_attribute=W.cobjects.TemplateAttribute(names=[W.cattrs.Name.create('t', E.NameType.UNINTERPRETED_TEXT_STRING)]),
        managed_object=W.OBJ_FACTORY.convert(W.pie_secret()))))
    # locate
    for n, v in ATTR_VALUES.items():
        if n == 'Digest':
            continue
        at = AT(n) if n in [a.value for a in AT] else n
        add('locate|%s' % n, (lambda at=at, v=v: W.p_locate([W.attr(at, v)])))
        add('locate|%s|twice' % n, (lambda at=at, v=v: W.p_locate([W.attr(at, v), W.attr(at, v)])))
    for dv in (0, -1, 1, 2 ** 31 - 1, 2 ** 31, 2 ** 32, 2 ** 40, 2 ** 62, 2 ** 63 - 1, -2 ** 31, -2 ** 62):
        add('locate|date=%d' % dv, (lambda dv=dv: W.p_locate([W.attr(AT.INITIAL_DATE, dv)])))
        add('locate|date-range=%d' % dv, (lambda dv=dv: W.p_locate([W.attr(AT.INITIAL_DATE, 5),
                                                                     W.attr(AT.INITIAL_DATE, dv)])))
    add('locate|three-dates', lambda: W.p_locate([W.attr(AT.INITIAL_DATE, W.T0)] * 3))
    for off, mx in ((0, 0), (-1, None), (None, -1), (5, 2), (2 ** 31 - 1, 2 ** 31 - 1)):
        add('locate|offset=%s|max=%s' % (off, mx), (lambda off=off, mx=mx: W.p_locate([], mx, off)))
    add('locate|storage-mask', lambda: (E.Operation.LOCATE, W.payloads.LocateRequestPayload(
        storage_status_mask=1, object_group_member=E.ObjectGroupMember.GROUP_MEMBER_FRESH)))
    # query / discover
    for q in E.QueryFunction:
        add('query|%s' % q.name, (lambda q=q: W.p_query([q])))
    add('query|all', lambda: W.p_query(list(E.QueryFunction)))
    add('query|none', lambda: W.p_query([]))
    add('query|dup', lambda: W.p_query([E.QueryFunction.QUERY_OPERATIONS] * 2))
    add('discover|all', lambda: W.p_discover())
    add('discover|some', lambda: W.p_discover([(1, 0), (9, 9), (2, 0)]))
    # identifiers no object has, of every shape a text string allows (numbers SQLite cannot hold, other
    # spellings of numbers, empty, long, non-ASCII): every addressing operation answers without an
    # internal error
    odd = [('empty', ''), ('2^63', str(2 ** 63)), ('-2^63-1', str(-2 ** 63 - 1)), ('2^64', str(2 ** 64)),
           ('39-digits', '3' * 39), ('100-digits', '7' * 100), ('5000-digits', '1' * 5000),
           ('long-text', 'x' * 3000), ('decimal', '999.0'), ('exponent', '1e400'), ('space', ' 999 '),
           ('plus', '+999'), ('hex', '0x3e7'), ('nul', 'a\x00b'), ('non-ascii', 'cl\u00e9-\u0663'),
           ('quote', "1' OR '1'='1"), ('percent', '%'), ('nan', 'nan'), ('inf', '-inf')]
    for oname, oid in odd:
        for opn, mk in (
                ('get', lambda u: W.p_get(u)), ('get_attributes', lambda u: W.p_get_attributes(u)),
                ('get_attribute_list', lambda u: W.p_get_attribute_list(u)),
                ('activate', lambda u: W.p_activate(u)), ('revoke', lambda u: W.p_revoke(u)),
                ('destroy', lambda u: W.p_destroy(u)), ('encrypt', lambda u: W.p_encrypt(u)),
                ('decrypt', lambda u: W.p_decrypt(u)), ('mac', lambda u: W.p_mac(u)),
                ('sign', lambda u: W.p_sign(u)), ('signature_verify', lambda u: W.p_signature_verify(u)),
                ('derive_key', lambda u: W.p_derive_key([u])),
                ('derive_key2', lambda u: W.p_derive_key(['1', u])),
                ('get_wrapped', lambda u: W.p_get('1', wrapping_spec=W.wrapping_spec(u))),
                ('modify_1x', lambda u: W.p_modify_attribute_1x(u, AT.NAME, 'x', 0)),
                ('delete_1x', lambda u: W.p_delete_attribute_1x(u, 'Name', 0))):
            add('%s|odd-id=%s' % (opn, oname), (lambda mk=mk, oid=oid: mk(oid)))
        for opn, mk in (
                ('set_20', lambda u: W.p_set_attribute(u, AT.SENSITIVE, True)),
                ('modify_20', lambda u: W.p_modify_attribute_20(u, AT.NAME, 'x', 'n')),
                ('delete_20', lambda u: W.p_delete_attribute_20(u, AT.NAME))):
            add('%s|odd-id=%s' % (opn, oname), (lambda mk=mk, oid=oid: mk(oid)), '20')
    # operations the server does not implement (payload classes the library can encode)
    for opn, cls in (('REKEY', 'RekeyRequestPayload'), ('REKEY_KEY_PAIR', 'RekeyKeyPairRequestPayload'),
                     ('CHECK', 'CheckRequestPayload'), ('GET_USAGE_ALLOCATION', 'GetUsageAllocationRequestPayload'),
                     ('OBTAIN_LEASE', 'ObtainLeaseRequestPayload'), ('ARCHIVE', 'ArchiveRequestPayload'),
                     ('RECOVER', 'RecoverRequestPayload'), ('CANCEL', 'CancelRequestPayload'),
                     ('POLL', 'PollRequestPayload')):
        add('unsupported|%s' % opn, (lambda opn=opn, cls=cls: (E.Operation[opn], getattr(W.payloads, cls)())))
    return P


def _core_register(kind, ot, fmt=None, length='keep', value_len=None, no_alg=False):
    """Register request whose managed object is converted from a valid one and then altered at the
    codec level (key format type, declared cryptographic length, length of the key value)."""
    pie = {'sym': W.pie_symmetric, 'public': W.pie_public, 'private': W.pie_private,
           'secret': W.pie_secret}[kind]()
    secret = W.OBJ_FACTORY.convert(pie)
    kb = secret.key_block
    if fmt is not None:
        kb.key_format_type = W.misc.KeyFormatType(fmt)
    if length != 'keep':
        kb.cryptographic_length = None if length is None else W.cattrs.CryptographicLength(length)
    if no_alg:
        kb.cryptographic_algorithm = None
    if value_len is not None:
        kb.key_value = W.cobjects.KeyValue(W.cobjects.KeyMaterial(b'\x5a' * value_len))
    return E.Operation.REGISTER, W.payloads.RegisterRequestPayload(
        object_type=ot, template_attribute=W.template([]), managed_object=secret)


def _sym_with_format(f):
    k = W.pie_symmetric()
    k.key_format_type = f
    return k


def _wrapped_key(params=True):
    kw = {'wrapping_method': E.WrappingMethod.ENCRYPT,
          'encryption_key_information': {'unique_identifier': '1'},
          'encoding_option': E.EncodingOption.NO_ENCODING}
    if params:
        kw['encryption_key_information']['cryptographic_parameters'] = {
            'block_cipher_mode': MODE.NIST_KEY_WRAP}
    return W.pobjects.SymmetricKey(ALG.AES, 128, b'\x05' * 24, key_wrapping_data=kw)


# ---------------------------------------------------------------------------------------------
_BASE = None


def base():
    global _BASE
    if _BASE is None:
        _BASE = build_store()
    return _BASE


_EXC = re.compile(r"(\w+(?:Error|Exception|Failure|Tag|Warning)?): (.*)$")


def last_exception():
    """Type and first words of the last exception the engine logged on its catch-all path."""
    for name, level, text in reversed(W.LOGS.texts(logging.WARNING)):
        if 'Traceback' in text:
            last = text.strip().splitlines()[-1]
            m = _EXC.match(last)
            where = ''
            for ln in reversed(text.splitlines()):
                if ln.strip().startswith('File ') and '/kmip/' in ln:
                    where = ln.strip().split('/kmip/')[-1].split(',')[0].strip('"') + ':' + \
                        ln.strip().split(' in ')[-1]
                    break
            if m:
                msg = re.sub(r"\d+", "N", m.group(2))[:50]
                return "%s(%s)@%s" % (m.group(1), msg, where)
            return last[:80]
    return 'unknown'


def run_probe(label, item, version, user='alice'):
    """Returns (status, key) with status in ok/fail/GF/unencodable."""
    w0, uids, kek = base()
    w = w0.clone()
    try:
        W.CLOCK.now = W.T0 + 50
        try:
            data = W.encode_request(W.build_request(version, [item()]))
        except Exception:   # noqa  - the library cannot express this request for this version
            return 'unencodable', None, None
        # well-formed = accepted by the library's own decoder
        try:
            m = W.messages.RequestMessage()
            m.read(W.cutils.BytearrayStream(data), kmip_version=E.KMIPVersion.KMIP_1_2)
        except Exception:   # noqa
            return 'undecodable', None, None
        W.LOGS.clear()
        r = W.Resp(w.send_bytes(data, user=user))
        it = r.items[0]
        gf_log = any('Error occurred while processing operation' in t[2] or
                     'An unexpected error occurred' in t[2] for t in W.LOGS.texts(logging.WARNING))
        if (not it.ok() and it.reason == RR.GENERAL_FAILURE.value) or gf_log:
            return 'GF', last_exception(), it.brief()
        return ('ok' if it.ok() else 'fail'), None, it.brief()
    finally:
        w.close()


def run_batch_probe(names, version):
    """Multi-item batches: the ID placeholder set by one item and read by a later one (the
    cross product setter x reader lives in checks/c08_batch.py). Returns [(item name, exc)]."""
    from checks import c08_batch as B
    W.use_rsa_pool(1)
    w = B.store('active').clone()
    try:
        W.CLOCK.now = W.T0 + 50
        W.LOGS.clear()
        r = w.do(version, [B.ITEMS[nm][0](None) for nm in names])
        out = []
        for nm, it in zip(names, r.items):
            if not it.ok() and it.reason == RR.GENERAL_FAILURE.value:
                out.append((nm, last_exception()))
        if not out and any('Error occurred while processing operation' in t[2] or
                           'An unexpected error occurred' in t[2] for t in W.LOGS.texts(logging.WARNING)):
            out.append((names[-1], last_exception()))
        return out, tuple(it.status for it in r.items)
    finally:
        w.close()


def grid(tier):
    """(target label, uid or None, kind, probes)."""
    w0, uids, kek = base()
    out = []
    for k in KINDS:
        for st, u in uids[k].items():
            if tier == 'quick' and st == 'pre' and k not in ('SymmetricKey', 'OpaqueObject', 'Certificate'):
                continue
            out.append(('%s/%s' % (k, st), u, k))
    out.append(('missing', '424242', 'none'))
    return out, kek


def _vok(vc, version):
    return vc == 'any' or (vc == '20') == (version == (2, 0))


def _worker(task):
    kind, arg, versions = task
    part = Part()
    outs = set()
    w0, uids, kek = base()
    if kind == 'batch':
        for names, version in arg:
            for v in ([version] if versions == 'quick' else (
                    [(1, 0), (1, 2), (1, 4)] if version != (2, 0) else [(2, 0)])):
                try:
                    gfs, sig = run_batch_probe(names, v)
                except Exception as e:   # noqa
                    part.violation("session-escape|batch|%s" % type(e).__name__,
                                   "exception %s escaped the session for batch %s" % (
                                       type(e).__name__, list(names)),
                                   {'batch': list(names), 'version': list(v)})
                    continue
                part.count('batches')
                part.count('batch_all_ok' if all(x == 0 for x in sig) and len(sig) == len(names)
                           else 'batch_some_failed')
                for nm, exc in gfs:
                    part.violation("GF|batch|%s|%s" % (nm, exc),
                                   "item %s of batch %s under KMIP %d.%d answered General Failure: %s"
                                   % (nm, list(names), v[0], v[1], exc),
                                   {'batch': list(names), 'version': list(v)})
        part.sample({'batch': list(arg[-1][0])})
        return part.as_dict()
    if kind == 'target':
        tlabel, uid, k = arg
        plist = probes(uid, kek, k)
    else:
        tlabel, plist = 'no-object', object_free_probes()[arg[0]::arg[1]]
    for label, vc, item in plist:
        for version in versions:
            if not _vok(vc, version):
                continue
            try:
                st, exc, brief = run_probe(label, item, version)
            except Exception as e:   # noqa
                part.violation("session-escape|%s|%s" % (label.split('|')[0], type(e).__name__),
                               "exception %s escaped the session for %s on %s" % (type(e).__name__, label, tlabel),
                               {'target': tlabel, 'probe': label, 'version': list(version)})
                continue
            part.count('requests')
            part.count('status_' + st)
            outs.add((label.split('|')[0], tlabel.split('/')[0], st))
            if st == 'GF':
                vclass = '2.0' if version == (2, 0) else '1.x'
                part.violation("GF|%s|%s" % (label.split('|')[0], exc),
                               "%s on %s under KMIP %d.%d answered General Failure: %s" % (
                                   label, tlabel, version[0], version[1], exc),
                               {'target': tlabel, 'probe': label, 'version': list(version)})
    part.sample({'target': tlabel, 'probes': len(plist), 'example': plist[len(plist) // 2][0]})
    out = part.as_dict()
    out['out'] = sorted(outs)
    return out


def run(tier, seed):
    rep = Reporter('C13', 'exploration', tier, seed)
    targets, kek = grid(tier)
    versions_all = W.VERSIONS
    versions_q = [(1, 0), (1, 2), (1, 4), (2, 0)]
    tasks = []
    for t in targets:
        vs = versions_all if tier == 'thorough' else (versions_q if t[0] in (
            'SymmetricKey/act', 'PrivateKey/act', 'PublicKey/act') else [(1, 4), (2, 0)])
        tasks.append(('target', t, vs))
    ofp = object_free_probes()
    n = 8
    for i in range(n):
        tasks.append(('free', (i, n), versions_all if tier == 'thorough' else versions_q))
    from checks import c08_batch as B
    fam = B.placeholder_family()
    for i in range(8):
        tasks.append(('batch', fam[i::8], tier))
    outs = set()
    for part in pmap(_worker, tasks):
        outs.update(tuple(o) for o in part.pop('out', []))
        rep.merge(part)
    n_req = rep.counters.get('requests', 0)
    if rep.counters.get('status_ok', 0) < 500 or rep.counters.get('status_fail', 0) < 2000:
        rep.harness_error("vacuous: ok=%s fail=%s" % (rep.counters.get('status_ok'), rep.counters.get('status_fail')))
    if rep.counters.get('batch_all_ok', 0) < len(fam) // 4:
        rep.harness_error("vacuous: only %s of %d placeholder batches succeeded throughout" % (
            rep.counters.get('batch_all_ok'), len(fam)))
    return rep.finish(dict(
        evaluations=n_req + rep.counters.get('batches', 0), distinct_nontrivial=len(outs),
        placeholder_batches=rep.counters.get('batches', 0),
        placeholder_batches_all_items_succeeded=rep.counters.get('batch_all_ok', 0),
        rule="a case is one well-formed request (accepted by the library's own codec) executed on a "
             "clone of a store holding every object kind in pre-active and active state (plus keys "
             "without mask, deactivated, compromised) and a non-existent identifier; requests = "
             "per-operation parameter menus with one deviation from the valid request; plus the "
             "ID-placeholder batches (every setter x every reader, 2-3 items). "
             "distinct_nontrivial = distinct (operation, object kind, outcome class) triples",
        succeeded=rep.counters.get('status_ok', 0), failed_specifically=rep.counters.get('status_fail', 0),
        general_failures=rep.counters.get('status_GF', 0),
        unencodable_by_library=rep.counters.get('status_unencodable', 0),
        undecodable_by_library=rep.counters.get('status_undecodable', 0),
        targets=len(targets), exhaustive=False, deviation_bound_completed=1,
    ), assumptions=[
        "well-formed = the library's own codec encodes the request and decodes it again",
        "one deviation from a valid request per probe; combinations of two unusual parameters are "
        "not covered",
    ])


def replay(doc):
    if 'batch' in doc:
        gfs, sig = run_batch_probe(tuple(doc['batch']), tuple(doc['version']))
        return bool(gfs), "batch %s -> statuses %s, general failures %s" % (doc['batch'], sig, gfs)
    w0, uids, kek = base()
    k, _, st = doc['target'].partition('/')
    if doc['target'] == 'no-object':
        plist = object_free_probes()
    elif doc['target'] == 'missing':
        plist = probes('424242', kek, 'none')
    else:
        plist = probes(uids[k][st], kek, k)
    for label, vc, item in plist:
        if label == doc['probe']:
            st_, exc, brief = run_probe(label, item, tuple(doc['version']))
            return st_ == 'GF', "%s -> %s %s %s" % (label, st_, brief, exc or '')
    return False, 'probe not found'
