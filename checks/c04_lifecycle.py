"""C04 - object lifecycle is monotone and gates every cryptographic use.

Explicit-state BFS over the real engine, one object under test per (kind, usage-mask variant),
run to fixpoint; canonical state = (kind, mask variant, lifecycle state | destroyed).
Thorough adds: all action sequences to depth 3 WITHOUT merging, requiring that histories that
reach the same canonical state answer every probe identically (soundness of the abstraction).
"""
import itertools

from mc import world as W
from mc.world import enums, CUM, AT
from mc.report import Reporter, Part
from mc.par import pmap

E = enums
RRC = E.RevocationReasonCode
ST = E.State

KINDS = ['SymmetricKey', 'PublicKey', 'PrivateKey', 'SplitKey', 'SecretData', 'Certificate',
         'OpaqueObject']
GATED_BITS = [CUM.ENCRYPT, CUM.DECRYPT, CUM.SIGN, CUM.VERIFY, CUM.MAC_GENERATE, CUM.DERIVE_KEY,
              CUM.WRAP_KEY]
ALL = list(CUM)


def mask_variants(tier):
    v = {'none': [], 'all': ALL}
    for b in GATED_BITS:
        v['only_' + b.name] = [b]
        v['allbut_' + b.name] = [m for m in ALL if m != b]
    return v


# ---------------------------------------------------------------------------------------------
# actions: name -> (builder(uid, ctx) -> (version, item), kind of action)
# ---------------------------------------------------------------------------------------------
def _cbc():
    return W.crypto_params(cryptographic_algorithm=E.CryptographicAlgorithm.AES,
                           block_cipher_mode=E.BlockCipherMode.CBC,
                           padding_method=E.PaddingMethod.PKCS5)


def _valid_ciphertext(key):
    from cryptography.hazmat.primitives.ciphers import Cipher, algorithms, modes
    from cryptography.hazmat.primitives import padding
    p = padding.PKCS7(128).padder()
    d = p.update(b'attack at dawn') + p.finalize()
    e = Cipher(algorithms.AES(key), modes.CBC(b'\x00' * 16)).encryptor()
    return e.update(d) + e.finalize()


ACTIONS = {}
ACTIONS['activate'] = lambda u, c: ((1, 4), W.p_activate(u))
for _code in RRC:
    ACTIONS['revoke_' + _code.name] = (lambda code: lambda u, c: ((1, 4), W.p_revoke(u, code)))(_code)
ACTIONS['revoke_KEY_COMPROMISE_dated'] = lambda u, c: (
    (1, 4), W.p_revoke(u, RRC.KEY_COMPROMISE, 'msg', W.T0 - 5))
ACTIONS['revoke_SUPERSEDED_20'] = lambda u, c: ((2, 0), W.p_revoke(u, RRC.SUPERSEDED))
ACTIONS['destroy'] = lambda u, c: ((1, 4), W.p_destroy(u))
ACTIONS['encrypt'] = lambda u, c: ((1, 4), W.p_encrypt(u, _cbc(), b'attack at dawn', b'\x00' * 16))
ACTIONS['decrypt'] = lambda u, c: ((1, 4), W.p_decrypt(u, _cbc(), c['ciphertext'], b'\x00' * 16))
ACTIONS['sign'] = lambda u, c: ((1, 4), W.p_sign(u))
ACTIONS['signature_verify'] = lambda u, c: ((1, 4), W.p_signature_verify(u))
ACTIONS['mac'] = lambda u, c: ((1, 4), W.p_mac(u))
ACTIONS['mac_20'] = lambda u, c: ((2, 0), W.p_mac(u))
ACTIONS['derive_key'] = lambda u, c: ((1, 4), W.p_derive_key([u]))
ACTIONS['derive_key_second'] = lambda u, c: ((1, 4), W.p_derive_key([c['base'], u]))
ACTIONS['get_wrapped_by_it'] = lambda u, c: (
    (1, 4), W.p_get(c['target'], wrapping_spec=W.wrapping_spec(u)))
ACTIONS['modify_state_1x'] = lambda u, c: (
    (1, 4), W.p_modify_attribute_1x(u, AT.STATE, ST.PRE_ACTIVE))
ACTIONS['modify_state_20'] = lambda u, c: (
    (2, 0), W.p_modify_attribute_20(u, AT.STATE, ST.PRE_ACTIVE))
ACTIONS['set_state_20'] = lambda u, c: ((2, 0), W.p_set_attribute(u, AT.STATE, ST.ACTIVE))
ACTIONS['delete_state_1x'] = lambda u, c: ((1, 4), W.p_delete_attribute_1x(u, 'State', 0))
ACTIONS['delete_state_20'] = lambda u, c: ((2, 0), W.p_delete_attribute_20(u, AT.STATE))
ACTIONS['get'] = lambda u, c: ((1, 4), W.p_get(u))
ACTION_NAMES = list(ACTIONS)

CRYPTO = {
    # action -> (needed bit, kinds for which the operation may succeed, state-gated?)
    'encrypt': (CUM.ENCRYPT, {'SymmetricKey'}, True),
    'decrypt': (CUM.DECRYPT, {'SymmetricKey'}, True),
    'sign': (CUM.SIGN, {'PrivateKey'}, True),
    'signature_verify': (CUM.VERIFY, {'PublicKey'}, True),
    'mac': (CUM.MAC_GENERATE, set(KINDS) - {'OpaqueObject'}, True),
    'mac_20': (CUM.MAC_GENERATE, set(KINDS) - {'OpaqueObject'}, True),
    'get_wrapped_by_it': (CUM.WRAP_KEY, {'SymmetricKey'}, True),
    'derive_key': (CUM.DERIVE_KEY, {'SymmetricKey', 'PublicKey', 'PrivateKey', 'SecretData'}, False),
    'derive_key_second': (CUM.DERIVE_KEY,
                          {'SymmetricKey', 'PublicKey', 'PrivateKey', 'SecretData'}, False),
}


def allowed_edge(action, before, after):
    if before == after:
        return True
    if before == 'destroyed':
        return False
    if after == 'destroyed':
        return action == 'destroy' and before != 'ACTIVE'
    if action == 'activate':
        return (before, after) == ('PRE_ACTIVE', 'ACTIVE')
    if action.startswith('revoke_'):
        if 'KEY_COMPROMISE' in action or 'CA_COMPROMISE' in action:
            if after == 'COMPROMISED':
                return True
            return 'CA_COMPROMISE' in action and (before, after) == ('ACTIVE', 'DEACTIVATED')
        return (before, after) == ('ACTIVE', 'DEACTIVATED')
    return False


# ---------------------------------------------------------------------------------------------
def initial_world(kind, masks):
    """World with helpers + the object under test (uid returned)."""
    W.CLOCK.now = W.T0
    w = W.World()
    all_mask_attr = [W.attr(AT.CRYPTOGRAPHIC_USAGE_MASK, ALL)]
    # helper 1: an Active AES key to be wrapped / used as first derivation base
    r = w.do((1, 4), W.p_register(W.pie_symmetric(b'\x55' * 16), all_mask_attr))
    target = r.uid()
    w.do((1, 4), W.p_activate(target))
    pie = W.KINDS[kind]()
    attrs = []
    if kind != 'OpaqueObject':
        attrs = [W.attr(AT.CRYPTOGRAPHIC_USAGE_MASK, masks)]
    r = w.do((1, 4), W.p_register(pie, attrs))
    assert r.items[0].ok(), r.brief()
    uid = r.uid()
    ctx = {'target': target, 'base': target, 'ciphertext': _valid_ciphertext(b'\x11' * 16)}
    return w, uid, ctx


def observe_state(w, uid):
    r = w.do((1, 4), W.p_get_attributes(uid, ['State']))
    it = r.items[0]
    if not it.ok():
        if it.reason == E.ResultReason.ITEM_NOT_FOUND.value:
            return 'destroyed'
        return 'unreadable(%s)' % it.brief()
    for a in W.ttlv.find_all(it.payload, W.TAG.ATTRIBUTE.value):
        if W.ttlv.find(a, W.TAG.ATTRIBUTE_NAME.value)[2] == 'State':
            return ST(W.ttlv.find(a, W.TAG.ATTRIBUTE_VALUE.value)[2]).name
    return 'stateless'


def step(w, uid, ctx, action, embedded=False):
    """embedded: the same item followed by a Create in one Continue batch - whatever a refused
    operation did to the object in memory, a later item's commit must not make it real."""
    version, item = ACTIONS[action](uid, ctx)
    W.CLOCK.advance(1)
    if embedded:
        r = w.do(version, [item, W.p_create(W.sym_attrs(masks=[CUM.ENCRYPT]))],
                 error_option=E.BatchErrorContinuationOption.CONTINUE)
    else:
        r = w.do(version, item)
    return r.items[0]


def judge(kind, mask_names, action, before, after, item):
    """Returns list of violation strings."""
    bad = []
    if not allowed_edge(action, before, after):
        bad.append("transition %s --%s--> %s is not allowed" % (before, action, after))
    if not item.ok() and before != after:
        bad.append("failed %s changed the state %s -> %s" % (action, before, after))
    if action in CRYPTO and item.ok():
        bit, kinds, state_gated = CRYPTO[action]
        if kind not in kinds:
            bad.append("%s succeeded on a %s" % (action, kind))
        if bit.name not in mask_names:
            bad.append("%s succeeded without the %s bit" % (action, bit.name))
        if state_gated and before != 'ACTIVE':
            bad.append("%s succeeded in state %s" % (action, before))
    return bad


def explore(kind, variant, masks, part):
    mask_names = [m.name for m in masks]
    w0, uid, ctx = initial_world(kind, masks)
    worlds = [w0]
    try:
        s0 = observe_state(w0, uid)
        seen = {s0: (w0, [])}
        frontier = [s0]
        while frontier:
            s = frontier.pop(0)
            ws, path = seen[s]
            for action, embedded in [(a, e) for a in ACTION_NAMES for e in (False, True)]:
                w = ws.clone()
                worlds.append(w)
                W.CLOCK.now = W.T0 + 10 + len(path)
                item = step(w, uid, ctx, action, embedded)
                after = observe_state(w, uid)
                part.count('transitions')
                part.counters.setdefault('_edges', set()).add((kind, s, action, after, item.ok()))
                for b in judge(kind, mask_names, action, s, after, item):
                    key = "%s|%s|%s|%s%s" % (kind, _mask_class(action, mask_names), s, b,
                                             '|in-batch' if embedded else '')
                    part.violation(key, "%s with masks %s: %s (answer: %s)%s" % (
                        kind, variant, b, item.brief(),
                        ' [sent as the first item of a Continue batch, followed by a Create]' if embedded else ''),
                        {'kind': kind, 'variant': variant, 'path': path + [action], 'embedded': embedded})
                if embedded:
                    w.close()
                    worlds.remove(w)
                    continue
                if after not in seen:
                    seen[after] = (w, path + [action])
                    frontier.append(after)
                else:
                    w.close()
                    worlds.remove(w)
        part.count('states', len(seen))
        part.sample({'kind': kind, 'masks': variant, 'states': sorted(seen),
                     'example_path': seen[sorted(seen)[-1]][1]})
        return seen
    finally:
        for w in worlds:
            w.close()


def _mask_class(action, mask_names):
    if action in CRYPTO:
        return 'bit_present' if CRYPTO[action][0].name in mask_names else 'bit_absent'
    return '-'


def _worker(task):
    kind, variant, masks = task
    part = Part()
    explore(kind, variant, masks, part)
    out = part.as_dict()
    out['edges'] = sorted(part.counters.pop('_edges', set()))
    return out


# ---- thorough: unmerged depth-3 tree with differential check of the abstraction --------------
def _tree_worker(task):
    kind, variant, masks, first = task
    part = Part()
    mask_names = [m.name for m in masks]
    w0, uid, ctx = initial_world(kind, masks)
    answers = {}   # (canonical state, probe action) -> (ok, reason) observed first, + path
    try:
        def rec(w, path, state, depth):
            for action in ([first] if depth == 0 else ACTION_NAMES):
                c = w.clone()
                try:
                    W.CLOCK.now = W.T0 + 10 + depth
                    item = step(c, uid, ctx, action)
                    after = observe_state(c, uid)
                    part.count('transitions')
                    for b in judge(kind, mask_names, action, state, after, item):
                        key = "%s|%s|%s|%s" % (kind, _mask_class(action, mask_names), state, b)
                        part.violation(key, "%s with masks %s: %s (answer: %s)" % (
                            kind, variant, b, item.brief()),
                            {'kind': kind, 'variant': variant, 'path': path + [action]})
                    obs = (item.status, item.reason, after)
                    k = (state, action)
                    if k in answers and answers[k][0] != obs:
                        part.violation(
                            "%s|abstraction|%s|%s" % (kind, state, action),
                            "%s: %s in state %s answers %s after %s but %s after %s" % (
                                kind, action, state, obs, path, answers[k][0], answers[k][1]),
                            {'kind': kind, 'variant': variant, 'path': path + [action]})
                    answers.setdefault(k, (obs, path))
                    if depth + 1 < 3:
                        rec(c, path + [action], after, depth + 1)
                finally:
                    c.close()
        rec(w0, [], observe_state(w0, uid), 0)
    finally:
        w0.close()
    part.count('tree_tasks')
    return part.as_dict()


def run(tier, seed):
    rep = Reporter('C04', 'model_checking', tier, seed)
    variants = mask_variants(tier)
    tasks = [(k, v, m) for k in KINDS for v, m in variants.items()
             if not (k == 'OpaqueObject' and v != 'none')]
    edges = set()
    for part in pmap(_worker, tasks):
        edges.update(tuple(e) for e in part.pop('edges', []))
        rep.merge(part)
    if tier == 'thorough':
        ttasks = [(k, v, variants[v], a) for k in KINDS for v in ('all', 'none')
                  if not (k == 'OpaqueObject' and v != 'none') for a in ACTION_NAMES]
        for part in pmap(_tree_worker, ttasks):
            rep.merge(part)
    succ_crypto = sorted(set((e[0], e[2]) for e in edges if e[2] in CRYPTO and e[4]))
    changing = sorted(set((e[1], e[2], e[3]) for e in edges if e[1] != e[3]))
    if len(changing) < 6 or len(succ_crypto) < 8:
        rep.harness_error("vacuous: %d distinct state-changing edges, %d succeeding crypto uses"
                          % (len(changing), len(succ_crypto)))
    rep.samples.insert(0, {'succeeding_crypto_uses_observed': succ_crypto})
    rep.samples.insert(0, {'state_changing_edges_observed': changing})
    return rep.finish(dict(
        states=rep.counters.get('states', 0), transitions=rep.counters.get('transitions', 0),
        traces_validated_against_impl=rep.counters.get('transitions', 0),
        fixpoint=True, exhaustive=True, configurations=len(tasks), actions=len(ACTION_NAMES),
        distinct_edges=len(edges), state_changing_edges=len(changing),
        succeeding_crypto_uses=len(succ_crypto),
        unmerged_depth3_tasks=rep.counters.get('tree_tasks', 0),
        explanation="BFS to fixpoint per (object kind, usage-mask variant) with every action applied "
                    "in every reached canonical state on the real engine (no separate model: each "
                    "transition is an execution of the implementation).",
    ), assumptions=[
        "'right kind' as in DESIGN.md 4/C04; DeriveKey is mask-gated but not state-gated",
        "Revoke(CA_COMPROMISE) Active->Deactivated is an allowed edge (DESIGN.md 4a)",
        "one object under test at a time; other objects are fixed helpers",
    ])


def replay(doc):
    variants = mask_variants('thorough')
    masks = variants[doc['variant']]
    w, uid, ctx = initial_world(doc['kind'], masks)
    try:
        state = observe_state(w, uid)
        lines, anybad = [], False
        for i, action in enumerate(doc['path']):
            W.CLOCK.now = W.T0 + 10 + i
            item = step(w, uid, ctx, action, bool(doc.get("embedded")) and i == len(doc["path"]) - 1)
            after = observe_state(w, uid)
            bad = judge(doc['kind'], [m.name for m in masks], action, state, after, item)
            lines.append("%s --%s--> %s : %s %s" % (state, action, after, item.brief(), bad or ''))
            anybad = anybad or bool(bad)
            state = after
        return anybad, '\n'.join(lines)
    finally:
        w.close()
