"""C20 - secrets stay out of logs and error messages at the default log level.

A monitor over exhaustively enumerated executions: all key material, secret data, passwords,
plaintexts and derivation inputs are canary values; every log record of level >= INFO on every
logger (formatted message, arguments, exception text, traceback) and every result message returned
to a client is scanned for any canary in raw / repr / hex (both cases) / base64 form and for long
hex runs equal to a message encoding. Executions: the C13 request grid over canary objects, the
C12 mutation set applied to canary-carrying requests (decode failures), batches, authentication
with canary credentials, and every client operation (client-side loggers) incl. failures.
"""
import base64
import logging
import re

from mc import world as W
from mc.world import enums, CUM, AT
from mc.report import Reporter, Part
from mc.par import pmap
from checks import c12_session as c12
from checks import c13_no_general_failure as c13
from checks import c19_client as c19

from kmip.pie import objects as pobjects
from kmip.core import objects as cobjects
from kmip.core.messages import contents

E = enums
W.use_rsa_pool()


def canary(tag, n):
    seed = ('CANARY<%s>' % tag).encode()
    out = bytearray(seed)
    i = 0
    while len(out) < n:
        out.append((i * 151 + len(tag) * 7 + 0x5b) % 256)
        i += 1
    return bytes(out[:n])


CANARIES = {
    'symmetric-key': canary('sym', 16), 'symmetric-key-2': canary('sym2', 32), 'secret-data': canary('secret', 24),
    'opaque': canary('opaque', 20), 'split-key': canary('split', 16), 'plaintext': canary('plain', 32),
    'derivation-data': canary('deriv', 20), 'salt': canary('salt', 16), 'password': canary('password', 16),
    'mac-data': canary('macdata', 24), 'wrapped-target': canary('target', 32),
}


def all_canaries():
    d = dict(CANARIES)
    priv, pub = W.rsa_fixture()
    d['rsa-private-key'] = priv[40:104]       # a 64-byte window of the private key DER (private exponent area)
    d['rsa-private-key-tail'] = priv[-48:]
    return d


def forms(value):
    out = set()
    out.add(value.decode('latin-1'))
    out.add(repr(value)[2:-1])
    out.add(value.hex())
    out.add(value.hex().upper())
    out.add(base64.b64encode(value).decode())
    try:
        out.add(value.decode('utf-8'))
    except UnicodeDecodeError:
        pass
    return [f for f in out if len(f) >= 12]


_FORMS = None


def canary_forms():
    global _FORMS
    if _FORMS is None:
        _FORMS = [(name, f) for name, v in all_canaries().items() for f in forms(v)]
    return _FORMS


def scan(text):
    hits = []
    for name, f in canary_forms():
        if f in text:
            hits.append(name)
    return sorted(set(hits))


_HEXRUN = re.compile(r"[0-9a-fA-F]{64,}")


def scan_records(part, where, ctx, sent=()):
    """Scan the captured records (>= INFO) and clear them."""
    texts = W.LOGS.texts(logging.INFO)
    for r in W.LOGS.records:
        if r.levelno >= logging.INFO and r.args:
            try:
                texts.append((r.name, r.levelno, repr(r.args)))
            except Exception:   # noqa
                pass
    W.LOGS.clear()
    part.count('log_records', len(texts))
    for name, level, text in texts:
        hits = scan(text)
        if hits:
            part.violation("log|%s|%s|%s" % (name.split('.')[0:3] and '.'.join(name.split('.')[0:3]), hits[0],
                                             where.split('|')[0]),
                           "%s: logger %s level %s writes %s: %s" % (
                               where, name, logging.getLevelName(level), hits, _excerpt(text, hits)), ctx)
        for m in _HEXRUN.findall(text):
            for s in sent:
                if m.lower() in s:
                    part.violation("log-encoding|%s|%s" % ('.'.join(name.split('.')[0:3]), where.split('|')[0]),
                                   "%s: logger %s level %s writes %d hex characters of a message encoding" % (
                                       where, name, logging.getLevelName(level), len(m)), ctx)
                    break


def _excerpt(text, hits):
    for name, f in canary_forms():
        if name in hits and f in text:
            i = text.index(f)
            return '...' + text[max(0, i - 60):i + 30].replace('\n', ' ') + '...'
    return text[:100]


def scan_response(part, resp, where, ctx):
    for it in resp.items:
        if it.message:
            hits = scan(it.message)
            if hits:
                part.violation("result-message|%s|%s" % (hits[0], where.split('|')[0]),
                               "%s: the result message contains %s: %s" % (where, hits, it.message[:120]), ctx)


# ---------------------------------------------------------------------------------------------
# canary-valued fixtures
# ---------------------------------------------------------------------------------------------
def canary_kinds():
    C = CANARIES
    return {
        'SymmetricKey': lambda: pobjects.SymmetricKey(E.CryptographicAlgorithm.AES, 128, C['symmetric-key']),
        'PublicKey': W.pie_public, 'PrivateKey': W.pie_private,
        'SplitKey': lambda: W.pie_split(C['split-key']),
        'SecretData': lambda: pobjects.SecretData(C['secret-data'], E.SecretDataType.PASSWORD),
        'Certificate': W.pie_certificate,
        'OpaqueObject': lambda: pobjects.OpaqueObject(C['opaque'], E.OpaqueDataType.NONE),
    }


class CanaryFixtures(object):
    def __enter__(self):
        self.saved = dict(W.KINDS)
        W.KINDS.update(canary_kinds())
        self.sym = W.pie_symmetric
        W.pie_symmetric = lambda value=CANARIES['symmetric-key'], *a, **k: self.sym(value, *a, **k)
        self.secret = W.pie_secret
        W.pie_secret = lambda value=CANARIES['secret-data'], *a, **k: self.secret(value, *a, **k)
        return self

    def __exit__(self, *a):
        W.KINDS.clear()
        W.KINDS.update(self.saved)
        W.pie_symmetric = self.sym
        W.pie_secret = self.secret


# ---------------------------------------------------------------------------------------------
# workloads
# ---------------------------------------------------------------------------------------------
FILTER = None     # replay: dict of context keys an execution must match to be run at all


def _want(**ctx):
    if FILTER is None:
        return True
    return all(FILTER.get(k) in (None, v) for k, v in ctx.items())


def grid_workload(part, tier, shard, nshards):
    """The C13 grid over canary objects."""
    with CanaryFixtures():
        c13._BASE = None
        w0, uids, kek = c13.base()
        try:
            W.LOGS.clear()
            targets = [('SymmetricKey/act', uids['SymmetricKey']['act'], 'SymmetricKey'),
                       ('PrivateKey/act', uids['PrivateKey']['act'], 'PrivateKey'),
                       ('SecretData/pre', uids['SecretData']['pre'], 'SecretData'),
                       ('OpaqueObject/pre', uids['OpaqueObject']['pre'], 'OpaqueObject'),
                       ('SplitKey/act', uids['SplitKey']['act'], 'SplitKey'),
                       ('missing', '424242', 'none')]
            versions = [(1, 4), (2, 0)] if tier == 'quick' else W.VERSIONS
            i = 0
            for tlabel, uid, k in targets:
                plist = c13.probes(uid, kek, k)
                if tlabel == 'SymmetricKey/act':
                    plist = plist + c13.object_free_probes()
                for label, vc, item in plist:
                    i += 1
                    if i % nshards != shard:
                        continue
                    for version in versions:
                        if not c13._vok(vc, version):
                            continue
                        for user in ('alice', 'bob'):
                            if not _want(target=tlabel, probe=label, version=list(version), user=user):
                                continue
                            w = w0.clone()
                            try:
                                try:
                                    data = W.encode_request(W.build_request(version, [item()]))
                                except Exception:   # noqa
                                    continue
                                W.LOGS.clear()
                                resp = W.Resp(w.send_bytes(data, user=user))
                                part.count('executions')
                                ctx = {'workload': 'grid', 'target': tlabel, 'probe': label, 'version': list(version),
                                       'user': user}
                                where = '%s|%s|%s' % (label.split('|')[0], tlabel, user)
                                scan_response(part, resp, where, ctx)
                                scan_records(part, where, ctx, sent=(data.hex(), resp.data.hex()))
                            finally:
                                w.close()
            part.sample({'workload': 'C13 grid over canary objects', 'targets': [t[0] for t in targets]})
        finally:
            c13._BASE = None
            w0.close()


def canary_requests():
    C = CANARIES
    MASK = [W.attr(AT.CRYPTOGRAPHIC_USAGE_MASK, list(CUM))]
    cred = cobjects.Credential(
        credential_type=E.CredentialType.USERNAME_AND_PASSWORD,
        credential_value=cobjects.UsernamePasswordCredential(username='alice', password=C['password'].decode('latin-1')))
    out = {
        'register_sym': ([W.p_register(pobjects.SymmetricKey(E.CryptographicAlgorithm.AES, 256, C['symmetric-key-2']), MASK)], {}),
        'register_secret': ([W.p_register(pobjects.SecretData(C['secret-data'], E.SecretDataType.PASSWORD))], {}),
        'register_private': ([W.p_register(W.pie_private(), MASK)], {}),
        'register_opaque': ([W.p_register(pobjects.OpaqueObject(C['opaque'], E.OpaqueDataType.NONE))], {}),
        'register_split': ([W.p_register(W.pie_split(C['split-key']))], {}),
        'register_conflict': ([W.p_register(pobjects.SymmetricKey(E.CryptographicAlgorithm.AES, 256, C['symmetric-key-2']),
                                            [W.attr(AT.CRYPTOGRAPHIC_LENGTH, 128)])], {}),
        'encrypt': ([W.p_encrypt('1', data=C['plaintext'], iv=b'\x00' * 16)], {}),
        'decrypt_garbage': ([W.p_decrypt('1', data=C['plaintext'])], {}),
        'mac': ([W.p_mac('1', data=C['mac-data'])], {}),
        'derive': ([W.p_derive_key(['1'], params=W.cattrs.DerivationParameters(
            cryptographic_parameters=W.crypto_params(hashing_algorithm=E.HashingAlgorithm.SHA_256),
            derivation_data=C['derivation-data'], salt=C['salt']))], {}),
        'with_credentials': ([W.p_get('1')], {'credentials': [cred]}),
        'with_credentials_fail': ([W.p_get('999')], {'credentials': [cred]}),
        'batch': ([W.p_register(pobjects.SecretData(C['secret-data'], E.SecretDataType.SEED)), W.p_get(), W.p_get('999')], {}),
    }
    return out


def decode_failure_workload(part, tier, shard, nshards):
    """Every C12 mutation of canary-carrying requests: undecodable frames whose bytes hold secrets."""
    with CanaryFixtures():
        c12._BASE = None
        base = c12.base()
        try:
            versions = [(1, 2), (2, 0)] if tier == 'quick' else W.VERSIONS
            n = 0
            for name, (items, hdr) in canary_requests().items():
                for v in versions:
                    try:
                        frame = W.encode_request(W.build_request(v, items, **hdr))
                    except Exception:   # noqa
                        continue
                    for label, m in [('unmutated', frame)] + list(c12.mutations(frame)):
                        n += 1
                        if n % nshards != shard:
                            continue
                        if not _want(request=name, mutation=label, version=list(v)):
                            continue
                        for cert in (('alice',), ()):
                            w = base.clone()
                            try:
                                W.LOGS.clear()
                                conn = W.FakeConnection(W.make_cert(cert, 'client'), m)
                                sess = W.session_mod.KmipSession(w.engine, conn, ('127.0.0.1', 1), name='c20')
                                sess.run()
                                part.count('executions')
                                ctx = {'workload': 'decode', 'request': name, 'mutation': label, 'version': list(v)}
                                where = '%s|%s' % (label.split('|')[0], name)
                                for data in conn.sent:
                                    try:
                                        scan_response(part, W.Resp(data), where, ctx)
                                    except Exception:   # noqa
                                        pass
                                scan_records(part, where, ctx, sent=(m.hex(),))
                            finally:
                                w.close()
            part.sample({'workload': 'C12 mutations of canary requests', 'requests': list(canary_requests())})
        finally:
            c12._BASE = None
            base.close()


def client_workload(part, tier):
    """Every client operation over canary objects, successes and scripted failures: client loggers."""
    with CanaryFixtures():
        c19._BASE = None
        w0, ids = c19.base()
        try:
            table = dict(c19.OPS, **c19.OPS20)
            for opname in table:
                for version in ([(1, 2), (2, 0)] if tier == 'quick' else W.VERSIONS):
                    if opname in c19.OPS20 and version != (2, 0):
                        continue
                    if not _want(op=opname, version=list(version)):
                        continue
                    w = w0.clone()
                    try:
                        W.LOGS.clear()
                        log = []
                        tr = c19.Transport(c19.real_responder(w, log))
                        out = c19.call(opname, version, tr, ids)
                        part.count('executions')
                        ctx = {'workload': 'client', 'op': opname, 'version': list(version)}
                        scan_records(part, 'client-%s|real' % opname, ctx,
                                     sent=tuple(x.hex() for pair in log for x in pair))
                        if out.kind in ('failure', 'exception'):
                            hits = scan(str(out.value))
                            if hits:
                                part.violation("client-error-text|%s" % hits[0],
                                               "client error for %s contains %s" % (opname, hits), ctx)
                        if not log:
                            continue
                        for label, resp in c19.derived_responses(log[-1][1]):
                            if not label.startswith(('failure:GENERAL', 'failure:ITEM', 'garbage', 'bad-inner', 'status')):
                                continue
                            W.LOGS.clear()
                            tr2 = c19.Transport(lambda frame, resp=resp: resp)
                            out = c19.call(opname, version, tr2, ids)
                            part.count('executions')
                            scan_records(part, 'client-%s|%s' % (opname, label.split(':')[0]), ctx, sent=(resp.hex(),))
                    finally:
                        w.close()
            part.sample({'workload': 'client operations', 'operations': list(table)[:10]})
        finally:
            c19._BASE = None
            w0.close()


# text shapes a password / user name can legally have in a configuration file or as an argument;
# {c} is the canary (hex text, so that every shape stays one config-file line)
SECRET_SHAPES = ['{c}', '%{c}', '{c}%', 'pw-%({c})s', '%%{c}', '${{{c}}}', '{c} ; x', '{c}=y', '"{c}"',
                 '{c}\\', ' {c} ', '%s{c}', '{{0}}{c}', '{c}#frag',
                 # the canary AFTER characters a configuration reader may take for a separator or comment
                 'Pw0 #{c}', 'Pw0 ;{c}', 'x ; {c}', 'x:{c}', 'x={c}', 'x,{c}', '[{c}]', 'x {c}']


def config_workload(part, tier):
    """Clients built from configuration files and from arguments whose password / user name are
    canaries in every text shape of SECRET_SHAPES; then one operation each against the real server
    (the request carries the credential) and against a scripted failure."""
    import os
    import shutil
    import tempfile
    from kmip.pie import client as pie_client
    from kmip.services import kmip_client as kc
    from kmip.services.server import config as server_config
    global _FORMS
    pw = CANARIES['password'].hex()
    user = canary('username', 12).hex()
    saved = _FORMS
    _FORMS = canary_forms() + [('password-text', pw), ('password-text', pw.upper())]
    tmp = tempfile.mkdtemp(prefix='verif-c20-', dir=W.SCRATCH_BASE)
    c19._BASE = None
    w0, ids = c19.base()
    try:
        for i, shape in enumerate(SECRET_SHAPES):
            if not _want(shape=shape):
                continue
            secret = shape.format(c=pw)
            path = os.path.join(tmp, 'pykmip-%d.conf' % i)
            with open(path, 'w') as f:
                f.write("[client]\nhost=127.0.0.1\nport=5696\nkeyfile=None\ncertfile=None\n"
                        "cert_reqs=CERT_REQUIRED\nssl_version=PROTOCOL_SSLv23\nca_certs=None\n"
                        "do_handshake_on_connect=True\nsuppress_ragged_eofs=True\n"
                        "username=%s\npassword=%s\n" % (user, secret))
            builders = {
                'pie-config': lambda: pie_client.ProxyKmipClient(config='client', config_file=path),
                'proxy-config': lambda: kc.KMIPProxy(config='client', config_file=path),
                'pie-args': lambda: pie_client.ProxyKmipClient(username=user, password=secret),
                'proxy-args': lambda: kc.KMIPProxy(username=user, password=secret),
            }
            for bname, build in builders.items():
                ctx = {'workload': 'config', 'builder': bname, 'shape': shape}
                where = 'config-%s|%s' % (bname, shape)
                W.LOGS.clear()
                try:
                    c = build()
                except Exception as e:   # noqa - an unusable configuration may be refused, quietly
                    hits = scan(str(e))
                    if hits:
                        part.violation("client-error-text|config|%s" % hits[0],
                                       "building a client (%s, password shape %r) raised an error "
                                       "containing %s" % (bname, shape, hits), ctx)
                    part.count('executions')
                    scan_records(part, where, ctx)
                    continue
                part.count('executions')
                scan_records(part, where, ctx)
                # one successful and one failing operation with the credential on the wire
                proxy = c.proxy if hasattr(c, 'proxy') else c
                for peer in ('real', 'failure'):
                    w = w0.clone()
                    try:
                        log = []
                        real = c19.real_responder(w, log)
                        if peer == 'real':
                            tr = c19.Transport(real)
                        else:
                            first = []

                            def scripted(frame, real=real, first=first):
                                good = real(frame)
                                for label, resp in c19.derived_responses(good):
                                    if label.startswith('failure:GENERAL_FAILURE'):
                                        return resp
                                return good
                            tr = c19.Transport(scripted)
                        proxy.socket = tr
                        proxy.protocol = c19.KMIPProtocol(tr)
                        if hasattr(c, '_is_open'):
                            c._is_open = True
                        W.LOGS.clear()
                        try:
                            if hasattr(c, 'proxy'):
                                c.get(ids['key'])
                            else:
                                c.get(ids['key'])
                        except Exception as e:   # noqa
                            hits = scan(str(e))
                            if hits:
                                part.violation("client-error-text|config-op|%s" % hits[0],
                                               "a client operation error contains %s" % hits, ctx)
                        part.count('executions')
                        scan_records(part, where + '|' + peer, ctx,
                                     sent=tuple(x.hex() for pair in log for x in pair))
                    finally:
                        w.close()
        # server configuration: every setting a canary path/text, including ones the parser refuses
        for i, shape in enumerate(SECRET_SHAPES):
            secret = shape.format(c=pw)
            path = os.path.join(tmp, 'server-%d.conf' % i)
            with open(path, 'w') as f:
                f.write("[server]\nhostname=127.0.0.1\nport=5696\ncertificate_path=/x/%s\n"
                        "key_path=/x/%s\nca_path=/x/ca\nauth_suite=Basic\npolicy_path=/x/p\n"
                        "enable_tls_client_auth=False\ntls_cipher_suites=\nlogging_level=INFO\n"
                        "database_path=/x/%s.db\n[auth:slugs]\nenabled=True\nurl=http://%s:%s@slugs/\n"
                        % (user, user, user, user, secret))
            W.LOGS.clear()
            try:
                server_config.KmipServerConfig().load_settings(path)
            except Exception as e:   # noqa
                hits = scan(str(e))
                if 'password-text' in hits:
                    part.violation("server-config-error-text|password",
                                   "loading a server configuration whose SLUGS URL embeds a password "
                                   "(shape %r) raised an error containing it" % shape,
                                   {'workload': 'config', 'builder': 'server', 'shape': shape})
            part.count('executions')
            scan_records(part, 'config-server|%s' % shape, {'workload': 'config', 'builder': 'server',
                                                            'shape': shape})
        part.sample({'workload': 'configuration files and credentials', 'shapes': SECRET_SHAPES[:6]})
    finally:
        _FORMS = saved
        c19._BASE = None
        w0.close()
        shutil.rmtree(tmp, ignore_errors=True)


def auth_workload(part, tier):
    """Sessions authenticating through SLUGS services whose URL embeds a password (a canary): every
    scripted behaviour of the service (success, unknown user, failing group lookup with 401/404/500/503,
    unreachable on the first or second lookup, non-JSON body) x requests with and without request
    credentials. The answers are REAL requests.Response objects and exceptions, so that whatever text
    the HTTP library puts into its errors is what gets logged."""
    from kmip.services.server.auth import slugs as slugs_mod
    global _FORMS
    pw = CANARIES['password'].hex()
    saved_forms, saved_requests = _FORMS, slugs_mod.requests
    _FORMS = canary_forms() + [('slugs-url-password', pw)]
    scripts = ['ok', 'user404', 'user500', 'groups401', 'groups404', 'groups500', 'groups503',
               'groups204', 'connerr1', 'connerr2', 'nonjson-user', 'nonjson-groups']

    class Scripted(object):
        def __getattr__(self, name):
            import requests
            return getattr(requests, name)

        def get(self, url, timeout=None):
            script = url.split('/S=')[1].split('/')[0]
            is_groups = url.endswith('/groups')
            which, _, code = script.partition('s' if script.startswith('groups') else 'r')
            if script == 'ok':
                return W.http_response(url, 200, {'groups': ['g1']} if is_groups else {})
            if script.startswith('user') and not is_groups:
                return W.http_response(url, int(script[4:]), {})
            if script.startswith('groups') and is_groups:
                return W.http_response(url, int(script[6:]), {})
            if script == 'connerr1' and not is_groups:
                raise W.http_connection_error(url)
            if script == 'connerr2' and is_groups:
                raise W.http_connection_error(url, 'Connection reset by peer')
            if script == 'nonjson-user' and not is_groups:
                return W.http_response(url, 200, 'NONJSON')
            if script == 'nonjson-groups' and is_groups:
                return W.http_response(url, 200, 'NONJSON')
            return W.http_response(url, 200, {'groups': ['g1']} if is_groups else {})

    slugs_mod.requests = Scripted()
    cred = cobjects.Credential(
        credential_type=E.CredentialType.USERNAME_AND_PASSWORD,
        credential_value=cobjects.UsernamePasswordCredential(
            username='alice', password=CANARIES['password'].decode('latin-1')))
    w0 = W.World()
    try:
        w0.do((1, 4), W.p_create())
        for script in scripts:
            for rname, items, hdr in (('get', [W.p_get('1')], {}), ('create', [W.p_create()], {}),
                                      ('get+credentials', [W.p_get('1')], {'credentials': [cred]})):
                w = w0.clone()
                try:
                    settings = [('auth:slugs', {'enabled': 'True',
                                                'url': 'http://kmipsvc:%s@slugs.internal:8443/S=%s' % (pw, script)})]
                    data = W.encode_request(W.build_request((1, 4), items, **hdr))
                    conn = W.FakeConnection(W.make_cert(('alice',), 'client'), data)
                    sess = W.session_mod.KmipSession(w.engine, conn, ('127.0.0.1', 1), name='c20-auth',
                                                     enable_tls_client_auth=True, auth_settings=settings)
                    W.LOGS.clear()
                    sess.run()
                    part.count('executions')
                    part.count('auth_executions')
                    ctx = {'workload': 'auth', 'script': script, 'request': rname}
                    where = 'auth-%s|%s' % (script, rname)
                    for d in conn.sent:
                        try:
                            scan_response(part, W.Resp(d), where, ctx)
                        except Exception:   # noqa
                            pass
                    scan_records(part, where, ctx, sent=(data.hex(),))
                finally:
                    w.close()
        part.sample({'workload': 'SLUGS URL with embedded password', 'scripts': scripts})
    finally:
        slugs_mod.requests = saved_requests
        _FORMS = saved_forms
        w0.close()


def _worker(task):
    kind, tier, shard, n = task
    part = Part()
    logging.getLogger().setLevel(logging.INFO)
    if kind == 'grid':
        grid_workload(part, tier, shard, n)
    elif kind == 'decode':
        decode_failure_workload(part, tier, shard, n)
    elif kind == 'config':
        config_workload(part, tier)
    elif kind == 'auth':
        auth_workload(part, tier)
    else:
        client_workload(part, tier)
    return part.as_dict()


def run(tier, seed):
    rep = Reporter('C20', 'exploration', tier, seed)
    tasks = [('grid', tier, i, 12) for i in range(12)] + [('decode', tier, i, 8) for i in range(8)] + \
            [('client', tier, 0, 1), ('config', tier, 0, 1), ('auth', tier, 0, 1)]
    for part in pmap(_worker, tasks):
        rep.merge(part)
    ex = rep.counters.get('executions', 0)
    recs = rep.counters.get('log_records', 0)
    if ex < 5000 or recs < 10000:
        rep.harness_error("vacuous: %d executions, %d log records scanned" % (ex, recs))
    return rep.finish(dict(
        evaluations=ex, distinct_nontrivial=len(canary_forms()),
        rule="a case is one execution (request -> response) with canary secrets, after which every log "
             "record >= INFO on every logger and every result message is scanned: the C13 request grid "
             "over canary objects as owner and as non-owner, every C12 mutation of 13 canary-carrying "
             "requests (credentials, key material, plaintext, derivation data) with and without a usable "
             "client identity, and every client operation against the real server and against scripted "
             "failures; clients built from configuration files and from arguments whose password is a "
             "canary in 14 text shapes (%, %(x)s, ${x}, quotes, ...), each followed by an operation "
             "carrying the credential, and server configuration files with a password-bearing SLUGS "
             "URL; sessions authenticating through SLUGS services whose URL embeds a password, under 12 "
             "scripted service behaviours (real requests.Response objects and exceptions) x 3 requests. "
             "distinct_nontrivial = number of distinct canary text forms searched for (raw, "
             "repr, hex lower/upper, base64, utf-8 of 13 canaries)",
        log_records_scanned=recs, canaries=len(all_canaries()), exhaustive=False,
    ), assumptions=[
        "loggers are at the server's default level (INFO); DEBUG records (which do contain message "
        "encodings) are outside the property",
        "a secret is recognised in raw, repr, hexadecimal (either case), base64 and utf-8 form, and "
        "message encodings as hex runs of >= 64 characters; other transformations are not detected",
    ])


def replay(doc):
    """Re-runs the workload the violation came from, restricted to the recorded execution."""
    global FILTER
    wl = doc.get('workload')
    keys = {'grid': ('target', 'probe', 'version', 'user'), 'decode': ('request', 'mutation', 'version'),
            'client': ('op', 'version'), 'config': ('shape',), 'auth': ()}.get(wl)
    if keys is None:
        return False, 'unknown workload %r' % wl
    FILTER = {k: doc.get(k) for k in keys}
    part = Part()
    logging.getLogger().setLevel(logging.INFO)
    try:
        if wl == 'grid':
            grid_workload(part, 'thorough', 0, 1)
        elif wl == 'decode':
            decode_failure_workload(part, 'thorough', 0, 1)
        elif wl == 'client':
            client_workload(part, 'thorough')
        elif wl == 'auth':
            auth_workload(part, 'thorough')
        else:
            config_workload(part, 'thorough')
    finally:
        FILTER = None
    v = part.violations
    return bool(v), '\n'.join("%s: %s" % (k, t) for k, t, _ in v[:10]) or (
        'no violation (%d executions re-run)' % part.counters.get('executions', 0))
