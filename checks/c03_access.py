"""C03 - access control: nothing happens to an object without a policy grant.

(a) the complete decision table of the engine's real decision entry point against ref/access.py
(b) enforcement at every call site: for every policy shape that changes a decision, every
    requester identity, every stored object type and every object-addressing operation
    (incl. indirect ones), executed on a clone of a real store; plus Locate listings and the
    owner invariant in every reached state.
"""
import itertools

from mc import world as W
from mc.world import enums, CUM, AT
from mc.ref import access as ref
from mc.report import Reporter, Part
from mc.par import pmap

E = enums
P = E.Policy
OT = E.ObjectType
OPN = E.Operation
RR = E.ResultReason

TYPES = {'SymmetricKey': OT.SYMMETRIC_KEY, 'PublicKey': OT.PUBLIC_KEY, 'PrivateKey': OT.PRIVATE_KEY,
         'SplitKey': OT.SPLIT_KEY, 'SecretData': OT.SECRET_DATA, 'Certificate': OT.CERTIFICATE,
         'OpaqueObject': OT.OPAQUE_DATA}
ADDR_OPS = [OPN.GET, OPN.GET_ATTRIBUTES, OPN.GET_ATTRIBUTE_LIST, OPN.ACTIVATE, OPN.REVOKE,
            OPN.DESTROY, OPN.MODIFY_ATTRIBUTE, OPN.DELETE_ATTRIBUTE, OPN.SET_ATTRIBUTE, OPN.LOCATE,
            OPN.ADD_ATTRIBUTE, OPN.DERIVE_KEY, OPN.ENCRYPT, OPN.CHECK]

CELL_KINDS = ['ALL', 'OWNER', 'DISALLOW', 'op_missing', 'type_missing', 'absent']


def section(kind, types=None, ops=None):
    """A uniform section: every (type, op) cell has the same shape."""
    types = list(OT) if types is None else types
    ops = list(OPN) if ops is None else ops
    if kind == 'ALL':
        return {t: {o: P.ALLOW_ALL for o in ops} for t in types}
    if kind == 'OWNER':
        return {t: {o: P.ALLOW_OWNER for o in ops} for t in types}
    if kind == 'DISALLOW':
        return {t: {o: P.DISALLOW_ALL for o in ops} for t in types}
    if kind == 'op_missing':
        return {t: {OPN.POLL: P.ALLOW_ALL} for t in types}
    if kind == 'type_missing':
        return {OT.TEMPLATE: {o: P.ALLOW_ALL for o in ops}} if OT.TEMPLATE not in types else {}
    if kind in ('MIXED', 'MIXED2'):
        # NON-uniform sections: each object type has its own operation map, with different
        # permissions for the same operation and operations one type lists and another does not
        cyc = [P.ALLOW_ALL, P.ALLOW_OWNER, P.DISALLOW_ALL]
        out = {}
        for i, t in enumerate(types):
            k = i + (1 if kind == 'MIXED2' else 0)
            out[t] = {o: cyc[(k + j) % 3] for j, o in enumerate(ops) if (j + k) % 4 != 0}
        return out
    raise ValueError(kind)


def make_policy(preset_kind, g1_kind, g2_kind):
    """kinds: one of CELL_KINDS; 'absent' = the section / group does not exist.
    g1_kind == g2_kind == 'nogroups' -> no 'groups' key at all; 'emptygroups' -> 'groups': {}."""
    pol = {}
    if preset_kind != 'absent':
        pol['preset'] = section(preset_kind, [t for t in OT if t != OT.TEMPLATE])
    if g1_kind == 'nogroups':
        return pol
    if g1_kind == 'emptygroups':
        pol['groups'] = {}
        return pol
    groups = {}
    if g1_kind != 'absent':
        groups['g1'] = section(g1_kind, [t for t in OT if t != OT.TEMPLATE])
    if g2_kind != 'absent':
        groups['g2'] = section(g2_kind, [t for t in OT if t != OT.TEMPLATE])
    pol['groups'] = groups
    return pol


def via_parser(pol, part=None):
    """The policy as the SERVER would have it: written as a policy file and read back by the
    library's own parser (kmip.core.policy.read_policy_from_file). The reference model keeps judging
    against the policy as written. Shapes no file can express ('groups': {}) are installed directly."""
    import json
    import os
    import tempfile
    from kmip.core import policy as core_policy

    def table(t):
        return {ot.name: {op.name: perm.name for op, perm in ops.items()} for ot, ops in t.items()}
    doc = {}
    if 'preset' in pol:
        doc['preset'] = table(pol['preset'])
    if 'groups' in pol:
        doc['groups'] = {g: table(t) for g, t in pol['groups'].items()}
    d = tempfile.mkdtemp(prefix='verif-c03p-', dir=W.SCRATCH_BASE)
    try:
        f = os.path.join(d, 'policy.json')
        with open(f, 'w') as fh:
            json.dump({'user': doc}, fh)
        try:
            parsed = core_policy.read_policy_from_file(f)
        except ValueError:
            if part is not None:
                part.count('policies_not_expressible_as_file')
            return pol
        if part is not None:
            part.count('policies_through_parser')
        return parsed.get('user', {})
    finally:
        import shutil
        shutil.rmtree(d, ignore_errors=True)


def policy_shapes():
    out = []
    for pk in CELL_KINDS:
        out.append((pk, 'nogroups', 'nogroups'))
        out.append((pk, 'emptygroups', 'emptygroups'))
        for g1 in CELL_KINDS:
            for g2 in CELL_KINDS:
                out.append((pk, g1, g2))
    out += MIXED_SHAPES
    return out


MIXED_SHAPES = [('MIXED', 'nogroups', 'nogroups'), ('MIXED2', 'nogroups', 'nogroups'),
                ('absent', 'MIXED', 'absent'), ('OWNER', 'MIXED', 'MIXED2'), ('MIXED', 'MIXED2', 'DISALLOW'),
                ('DISALLOW', 'absent', 'MIXED'), ('MIXED2', 'emptygroups', 'emptygroups')]


GROUPS = [None, [], ['g1'], ['g2'], ['g1', 'g2'], ['g2', 'g1'], ['g3'], ['g3', 'g1']]


# ---------------------------------------------------------------------------------------------
# (a) decision table
# ---------------------------------------------------------------------------------------------
def _table_worker(task):
    shapes = task
    part = Part()
    w = W.World()
    try:
        eng = w.engine
        for shape in shapes:
            written = W.default_policies({'user': make_policy(*shape)})
            store = W.default_policies({'user': via_parser(make_policy(*shape), part)})
            eng._operation_policies = store
            for pname in ('user', 'default', 'public', 'nosuch'):
                if pname != 'user' and shape != shapes[0]:
                    continue
                for groups in GROUPS:
                    for user in ('alice', 'bob'):
                        for t in list(OT):
                            for op in ADDR_OPS:
                                got = eng._is_allowed_by_operation_policy(
                                    pname, (user, groups), 'alice', t, op)
                                exp = ref.allowed(written, pname, user, groups, 'alice', t, op, P)
                                part.count('decisions')
                                if got:
                                    part.count('decisions_allow')
                                if bool(got) not in exp:
                                    gk = 'nogroupinfo' if groups is None else (
                                        'emptylist' if not groups else 'groups')
                                    key = "decision|%s|policy=%s|%s|expected=%s" % (
                                        'user' if pname == 'user' else pname,
                                        '%s/%s' % (shape[0], 'nogroups' if shape[1] in (
                                            'nogroups', 'emptygroups') else 'groups')
                                        if pname == 'user' else '-', gk, sorted(exp)[0])
                                    part.violation(key, "decision(policy=%s%s, user=%s, groups=%s, "
                                                   "owner=alice, %s, %s) = %s, reference says %s" % (
                                                       pname, shape if pname == 'user' else '',
                                                       user, groups, t.name, op.name, got,
                                                       sorted(exp)),
                                                   {'kind': 'decision', 'shape': list(shape),
                                                    'policy': pname, 'user': user,
                                                    'groups': groups, 'type': t.name,
                                                    'op': op.name})
        part.sample({'decision_table_shape': list(shapes[-1]), 'groups_menu': GROUPS})
    finally:
        w.close()
    return part.as_dict()


# ---------------------------------------------------------------------------------------------
# (b) enforcement
# ---------------------------------------------------------------------------------------------
IDENTITIES = [('alice', None), ('bob', None), ('alice', ['g1']), ('bob', ['g1']),
              ('bob', ['g1', 'g2']), ('bob', ['g3']), ('bob', [])]

MASK_ALL = list(CUM)


def probes_for(uid, kind, own_key, own_kek_target):
    """(name, governing operation, version, item, where the target is referenced)."""
    out = [
        ('get', OPN.GET, (1, 4), W.p_get(uid), 'direct'),
        ('get_attributes', OPN.GET_ATTRIBUTES, (1, 4), W.p_get_attributes(uid), 'direct'),
        ('get_attribute_list', OPN.GET_ATTRIBUTE_LIST, (2, 0), W.p_get_attribute_list(uid), 'direct'),
        ('activate', OPN.ACTIVATE, (1, 4), W.p_activate(uid), 'direct'),
        ('revoke', OPN.REVOKE, (1, 4), W.p_revoke(uid, E.RevocationReasonCode.KEY_COMPROMISE), 'direct'),
        ('destroy', OPN.DESTROY, (1, 4), W.p_destroy(uid), 'direct'),
        ('modify_1x', OPN.MODIFY_ATTRIBUTE, (1, 4),
         W.p_modify_attribute_1x(uid, AT.NAME, 'renamed', 0), 'direct'),
        ('modify_20', OPN.MODIFY_ATTRIBUTE, (2, 0),
         W.p_modify_attribute_20(uid, AT.SENSITIVE, True), 'direct'),
        ('delete_1x', OPN.DELETE_ATTRIBUTE, (1, 4), W.p_delete_attribute_1x(uid, 'Name', 0), 'direct'),
        ('delete_20', OPN.DELETE_ATTRIBUTE, (2, 0),
         W.p_delete_attribute_20(uid, AT.OBJECT_GROUP), 'direct'),
        ('set_20', OPN.SET_ATTRIBUTE, (2, 0), W.p_set_attribute(uid, AT.SENSITIVE, True), 'direct'),
        ('encrypt', OPN.GET, (1, 4), W.p_encrypt(uid, iv=b'\x00' * 16), 'direct'),
        ('decrypt', OPN.GET, (1, 4), W.p_decrypt(uid), 'direct'),
        ('sign', OPN.GET, (1, 4), W.p_sign(uid), 'direct'),
        ('signature_verify', OPN.GET, (1, 4), W.p_signature_verify(uid), 'direct'),
        ('mac', OPN.GET, (1, 4), W.p_mac(uid), 'direct'),
        ('derive_base', OPN.GET, (1, 4), W.p_derive_key([uid]), 'direct'),
        ('derive_second_base', OPN.GET, (1, 4), W.p_derive_key([own_key, uid]), 'second'),
        ('wrapping_key', OPN.GET, (1, 4),
         W.p_get(own_kek_target, wrapping_spec=W.wrapping_spec(uid)), 'wrap'),
    ]
    return out


def build_store(policies, kinds, activate):
    """alice registers one object per kind under policy 'user' (uids returned), bob owns two
    helper keys of his own (default policy) to use in indirect requests."""
    W.CLOCK.now = W.T0
    w = W.World(policies=policies)
    uids = {}
    for k in kinds:
        attrs = W.common_attrs(names=['n-' + k], policy='user', groups=['grp'])
        if k != 'OpaqueObject':
            attrs.append(W.attr(AT.CRYPTOGRAPHIC_USAGE_MASK, MASK_ALL))
        r = w.do((1, 4), W.p_register(W.KINDS[k](), attrs))
        assert r.items[0].ok(), (k, r.brief())
        uids[k] = r.uid()
        if activate and k != 'OpaqueObject':
            w.do((1, 4), W.p_activate(uids[k]))
    helpers = {}
    for user in ('alice', 'bob'):
        r = w.do((1, 4), W.p_register(W.pie_symmetric(b'\x66' * 16), [
            W.attr(AT.CRYPTOGRAPHIC_USAGE_MASK, MASK_ALL)]), user=user)
        helpers[user] = r.uid()
        w.do((1, 4), W.p_activate(helpers[user]), user=user)
    # objects of bob under the user policy and of alice under default: for the Locate listings
    extra = {}
    r = w.do((1, 4), W.p_register(W.pie_secret(), W.common_attrs(policy='user')), user='bob')
    extra['bob_user_secret'] = r.uid()
    r = w.do((1, 4), W.p_create_key_pair(**W.rsa_pair_attrs()), user='alice')
    extra['alice_default_public'] = r.pfind(W.TAG.PUBLIC_KEY_UNIQUE_IDENTIFIER)
    extra['alice_default_private'] = r.pfind(W.TAG.PRIVATE_KEY_UNIQUE_IDENTIFIER)
    # a pair whose COMMON template names the user policy while the private half's own template names
    # 'default': the half's own template governs it (the policy each object is under is what its
    # creator asked for - REQUESTED below - not what a later read of the store says)
    pa = W.rsa_pair_attrs()
    pa['common'] = pa['common'] + [W.attr(AT.OPERATION_POLICY_NAME, 'user')]
    pa['private'] = pa['private'] + [W.attr(AT.OPERATION_POLICY_NAME, 'default')]
    r = w.do((1, 4), W.p_create_key_pair(**pa), user='alice')
    assert r.items[0].ok(), r.brief()
    extra['alice_mixed_public'] = r.pfind(W.TAG.PUBLIC_KEY_UNIQUE_IDENTIFIER)
    extra['alice_mixed_private'] = r.pfind(W.TAG.PRIVATE_KEY_UNIQUE_IDENTIFIER)
    REQUESTED.clear()
    REQUESTED.update({extra['alice_mixed_public']: 'user', extra['alice_mixed_private']: 'default'})
    return w, uids, helpers, extra


REQUESTED = {}


def owner_rows(dump):
    cols, rows = dump['managed_objects']
    return {str(r[cols.index('uid')]): r[cols.index('owner')] for r in rows}


def missing_answer(w, name, version, item_builder, user, groups):
    """The answer the same request gets for an identifier that never existed."""
    r = w.do(version, item_builder('424242'), user=user, groups=groups)
    return r.items[0]


def enforce(shape, kinds, activate, part, label):
    policies = W.default_policies({'user': make_policy(*shape)})       # as written: for the reference
    installed = W.default_policies({'user': via_parser(make_policy(*shape), part)})   # as parsed
    w0, uids, helpers, extra = build_store(installed, kinds, activate)
    try:
        dump0 = w0.dump()
        owners0 = owner_rows(dump0)
        key0 = W.db_key(dump0)
        all_objs = dict(owners0)
        types_of = {}
        cols, rows = dump0['managed_objects']
        for r in rows:
            u_ = str(r[cols.index('uid')])
            types_of[u_] = (OT(r[cols.index('object_type')]),
                            REQUESTED.get(u_, r[cols.index('operation_policy_name')]))
        for user, groups in IDENTITIES:
            # ---- Locate lists exactly what the reference permits
            r = w0.do((1, 4), W.p_locate(), user=user, groups=groups)
            part.count('probes')
            listed = set(c[2] for c in (r.items[0].payload[2] if r.items[0].payload else [])
                         if c[0] == W.TAG.UNIQUE_IDENTIFIER.value)
            for uid, owner in all_objs.items():
                t, pname = types_of[uid]
                exp = ref.allowed(policies, pname, user, groups, owner, t, OPN.LOCATE, P)
                if (uid in listed) not in exp:
                    what = "Locate by %s%s %s object %s (%s owned by %s, policy %s %s)" % (
                        user, groups or '', 'lists' if uid in listed else 'omits', uid, t.name,
                        owner, pname, shape if pname == 'user' else '')
                    part.violation("locate|%s|%s|%s" % (
                        'lists-forbidden' if uid in listed else 'omits-permitted',
                        _gk(groups), _sk(shape) if pname == 'user' else pname), what,
                        {'kind': 'enforce', 'shape': list(shape), 'kinds': kinds,
                         'activate': activate})
            if W.db_key(w0.dump()) != key0:
                part.violation("locate|changes-store", "Locate changed the store", {})
            # ---- every addressing operation on every object kind
            for k in kinds:
                uid = uids[k]
                t = TYPES[k]
                own = helpers[user]
                for name, gov, version, item, where in probes_for(uid, k, own, own):
                    exp = ref.allowed(policies, 'user', user, groups, 'alice', t, gov, P)
                    c = w0.clone()
                    try:
                        W.CLOCK.now = W.T0 + 50
                        r = c.do(version, item, user=user, groups=groups)
                        it = r.items[0]
                        part.count('probes')
                        after = c.dump()
                        # what the same request answers for an identifier that never existed
                        fake = '424242'
                        r2 = c.do(version, probes_for(fake, k, own, own)[
                            [p[0] for p in probes_for(uid, k, own, own)].index(name)][3],
                            user=user, groups=groups)
                        nf = r2.items[0]
                    finally:
                        c.close()
                    denied_like = (not it.ok() and (
                        (it.reason == RR.PERMISSION_DENIED.value and
                         it.message == (nf.message or '').replace(fake, uid)) or
                        (it.reason, it.message) == (nf.reason, (nf.message or '').replace(fake, uid))))
                    ctx = {'kind': 'enforce', 'shape': list(shape), 'kinds': [k],
                           'activate': activate, 'probe': name, 'user': user, 'groups': groups}
                    part.counters.setdefault('_outcomes', set()).add(
                        (name, k, True in exp, it.ok(), denied_like))
                    if exp == {False}:
                        if it.ok():
                            part.violation("enforce|performed-without-grant|%s|%s|%s" % (
                                name, _gk(groups), _sk(shape)),
                                "%s on %s %s by %s%s succeeded although the policy %s does not "
                                "grant %s" % (name, k, uid, user, groups or '', shape, gov.name), ctx)
                        elif not denied_like:
                            part.violation("enforce|denial-distinguishable|%s" % name,
                                           "%s on %s by %s%s: denied with %s, but an identifier that "
                                           "never existed answers %s" % (
                                               name, k, user, groups or '', it.brief(), nf.brief()), ctx)
                        if it.payload is not None:
                            part.violation("enforce|denial-has-payload|%s" % name,
                                           "denied %s returned a payload" % name, ctx)
                        if W.db_key(after) != key0:
                            part.violation("enforce|denial-changes-store|%s" % name,
                                           "denied %s on %s changed the store" % (name, k), ctx)
                    elif exp == {True}:
                        if denied_like and where != 'wrap' or (
                                where == 'wrap' and not it.ok() and
                                it.message == 'Wrapping key does not exist.'):
                            part.violation("enforce|granted-but-denied|%s|%s" % (_gk(groups), _sk(shape)),
                                           "%s on %s %s by %s%s was refused as if it did not exist (%s) "
                                           "although the policy %s grants %s" % (
                                               name, k, uid, user, groups or '', it.brief(), shape,
                                               gov.name), ctx)
                    ow = owner_rows(after)
                    for u2, o2 in ow.items():
                        if u2 in owners0 and owners0[u2] != o2:
                            part.violation("owner-changed|%s" % name,
                                           "owner of %s changed from %s to %s by %s" % (
                                               u2, owners0[u2], o2, name), ctx)
        part.count('stores')
        part.sample({'policy_shape': list(shape), 'kinds': kinds, 'active': activate,
                     'identities': len(IDENTITIES), 'label': label})
    finally:
        w0.close()


def _gk(groups):
    return 'nogroupinfo' if groups is None else ('emptylist' if not groups else 'groups')


def _sk(shape):
    return '%s/%s' % (shape[0], 'nogroups' if shape[1] in ('nogroups', 'emptygroups') else
                      '%s+%s' % (shape[1], shape[2]))


def one_hot_policies():
    """Policies granting exactly one operation (to everybody) / exactly one object type."""
    types = [t for t in OT if t != OT.TEMPLATE]
    out = {}
    for op in ADDR_OPS:
        out['hot_op_' + op.name] = {'preset': {t: dict(
            [(o, P.DISALLOW_ALL) for o in ADDR_OPS] + [(op, P.ALLOW_ALL)]) for t in types}}
    for t in TYPES.values():
        out['hot_type_' + t.name] = {'preset': dict(
            [(x, {o: P.DISALLOW_ALL for o in ADDR_OPS}) for x in types] +
            [(t, {o: P.ALLOW_ALL for o in ADDR_OPS})])}
    return out


def enforce_one_hot(name, pol, kinds, part):
    """Same machinery with the policy installed under the name 'user'."""
    shape = ('onehot:' + name, 'nogroups', 'nogroups')
    orig = make_policy
    try:
        globals()['make_policy'] = lambda *a: pol
        enforce(shape, kinds, True, part, 'one-hot')
    finally:
        globals()['make_policy'] = orig


def _enforce_worker(task):
    kind, arg, kinds, activate = task
    W.use_rsa_pool()
    part = Part()
    if kind == 'shape':
        enforce(arg, kinds, activate, part, 'shape')
    else:
        name, pol = arg
        enforce_one_hot(name, pol, kinds, part)
    out = part.as_dict()
    out['outcomes'] = sorted(part.counters.pop('_outcomes', set()))
    return out


def decisive_shapes(tier):
    """Shapes that change a decision for some identity (merged where all decisions coincide:
    the engine consults the policy only through the decision function checked in (a))."""
    core = ['ALL', 'OWNER', 'DISALLOW']
    out = []
    for pk in ['ALL', 'OWNER', 'DISALLOW', 'op_missing', 'type_missing', 'absent']:
        out.append((pk, 'nogroups', 'nogroups'))
    for pk in ['ALL', 'DISALLOW']:
        out.append((pk, 'emptygroups', 'emptygroups'))
        for g1 in core + ['absent', 'op_missing']:
            for g2 in (['ALL', 'absent'] if tier == 'quick' else core + ['absent']):
                out.append((pk, g1, g2))
    out += MIXED_SHAPES[:4] if tier == 'quick' else MIXED_SHAPES
    return out


def run(tier, seed):
    rep = Reporter('C03', 'model_checking', tier, seed)
    shapes = policy_shapes()
    n = 16
    for part in pmap(_table_worker, [shapes[i::n] for i in range(n)]):
        rep.merge(part)
    kinds_all = list(TYPES)
    kinds_q = ['SymmetricKey', 'Certificate', 'OpaqueObject', 'PrivateKey']
    tasks = []
    for sh in decisive_shapes(tier):
        if tier == 'quick':
            tasks.append(('shape', sh, kinds_q, True))
        else:
            tasks.append(('shape', sh, kinds_all, True))
            tasks.append(('shape', sh, kinds_all, False))
    for name, pol in one_hot_policies().items():
        tasks.append(('onehot', (name, pol), kinds_all if tier != 'quick' or 'type' in name
                      else kinds_q, True))
    outcomes = set()
    for part in pmap(_enforce_worker, tasks):
        outcomes.update(tuple(o) for o in part.pop('outcomes', []))
        rep.merge(part)
    granted_ok = len([o for o in outcomes if o[2] and o[3]])
    denied = len([o for o in outcomes if not o[2] and o[4]])
    if granted_ok < 20 or denied < 20 or rep.counters.get('decisions_allow', 0) < 1000:
        rep.harness_error("vacuous: granted-and-succeeding outcome classes=%d, denied classes=%d"
                          % (granted_ok, denied))
    probes = rep.counters.get('probes', 0)
    return rep.finish(dict(
        states=rep.counters.get('stores', 0) + probes, transitions=probes,
        traces_validated_against_impl=probes,
        decision_table_entries=rep.counters.get('decisions', 0),
        decision_table_allows=rep.counters.get('decisions_allow', 0),
        decision_table_exhaustive=True,
        policy_shapes_table=len(shapes), policy_shapes_enforced=len(tasks),
        distinct_probe_outcome_classes=len(outcomes), exhaustive=True,
        policies_installed_through_the_parser=rep.counters.get('policies_through_parser', 0),
        policies_not_expressible_as_file=rep.counters.get('policies_not_expressible_as_file', 0),
        explanation="Every user policy is written as a policy file and read back by the library's own "
                    "parser before it is installed (the reference judges the policy as written); "
                    "besides the uniform shapes there are 7 shapes with NON-uniform sections (per "
                    "object type different permissions and different sets of operations). "
                    "(a) complete product policy name x policy shape (preset x g1 x g2 cell kinds, "
                    "no/empty groups section) x requester x group list x object type x operation on the "
                    "engine's real decision entry point. (b) for every decisive policy shape and "
                    "every one-hot (single operation / single object type) policy: a real store is "
                    "built, and from that state every identity performs every addressing operation "
                    "on every object kind (each on a clone: states = stores + probe results).",
    ), assumptions=[
        "crypto operations, DeriveKey bases and the wrapping key are governed by GET (engine docs)",
        "an EMPTY group list under a policy without group sections may be decided either way",
        "policy shapes are uniform over cells except for the one-hot policies",
    ])


def replay(doc):
    part = Part()
    if doc.get('kind') == 'decision':
        w = W.World()
        try:
            store = W.default_policies({'user': make_policy(*doc['shape'])})
            w.engine._operation_policies = store
            t, op = OT[doc['type']], OPN[doc['op']]
            got = w.engine._is_allowed_by_operation_policy(
                doc['policy'], (doc['user'], doc['groups']), 'alice', t, op)
            exp = ref.allowed(store, doc['policy'], doc['user'], doc['groups'], 'alice', t, op, P)
            return bool(got) not in exp, "decision=%s reference=%s" % (got, sorted(exp))
        finally:
            w.close()
    shape = tuple(doc['shape'])
    if str(shape[0]).startswith('onehot:'):
        name = shape[0].split(':', 1)[1]
        enforce_one_hot(name, one_hot_policies()[name], doc['kinds'], part)
    else:
        enforce(shape, doc['kinds'], doc.get('activate', True), part, 'replay')
    v = part.violations
    return bool(v), '\n'.join("%s: %s" % (k, w_) for k, w_, _ in v) or 'no violation'
