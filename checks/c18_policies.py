"""C18 - policies in force follow the policy files; built-in policies are untouchable.

(i)  explicit-state BFS on the real PolicyDirectoryMonitor over a real directory: one event =
     a change set (write / remove of files) followed by scan_policies(); canonical state =
     (file contents, the monitor's structures, the store, the reference model's state).
(ii) deviation-bounded enumeration of policy documents (0/1/2 faults at every JSON node) against
     an independent reference parser.
"""
import copy
import itertools
import json
import os
import shutil
import signal
import tempfile

from mc import world as W
from mc.world import enums
from mc.report import Reporter, Part
from mc.par import pmap

from kmip.core import policy as core_policy
from kmip.services.server import monitor as monitor_mod

monitor_mod.time = W.CLOCK

OT = enums.ObjectType
OPN = enums.Operation
POL = enums.Policy

# ---------------------------------------------------------------------------------------------
# reference parser (independent of kmip.core.policy; uses the enum classes only as vocabulary)
# ---------------------------------------------------------------------------------------------
VALID, INVALID_LISTED, OTHER = 'valid', 'invalid', 'other'


class RefInvalid(Exception):
    def __init__(self, cls, why):
        Exception.__init__(self, why)
        self.cls = cls


def _ref_table(t):
    if not isinstance(t, dict):
        raise RefInvalid(OTHER, "object-type table is %s" % type(t).__name__)
    out = {}
    for ot, ops in t.items():
        if ot not in OT.__members__:
            raise RefInvalid(INVALID_LISTED, "unknown object type %r" % ot)
        if not isinstance(ops, dict):
            raise RefInvalid(OTHER, "operation table is %s" % type(ops).__name__)
        row = {}
        for op, perm in ops.items():
            if op not in OPN.__members__:
                raise RefInvalid(INVALID_LISTED, "unknown operation %r" % op)
            if not isinstance(perm, str):
                raise RefInvalid(OTHER, "permission is %s" % type(perm).__name__)
            if perm not in POL.__members__:
                raise RefInvalid(INVALID_LISTED, "unknown permission %r" % perm)
            row[OPN[op]] = POL[perm]
        out[OT[ot]] = row
    return out


def ref_parse(text):
    """Returns (class, result). class VALID -> result is the expected dict."""
    try:
        doc = json.loads(text)
    except Exception:
        raise RefInvalid(INVALID_LISTED, "bad JSON")
    if not isinstance(doc, dict):
        raise RefInvalid(OTHER, "top level is %s" % type(doc).__name__)
    result = {}
    lenient = False
    for name, pol in doc.items():
        if not isinstance(pol, dict):
            raise RefInvalid(OTHER, "policy value is %s" % type(pol).__name__)
        if len(pol) == 0:
            lenient = True      # undocumented shape: an empty policy object defines nothing
            continue
        keys = set(pol)
        if keys <= {'preset', 'groups'}:
            parsed = {}
            if 'preset' in pol:
                if pol['preset'] is None or pol['preset'] == {}:
                    lenient = True
                else:
                    parsed['preset'] = _ref_table(pol['preset'])
            if 'groups' in pol:
                g = pol['groups']
                if g is None or g == {}:
                    lenient = True
                elif not isinstance(g, dict):
                    raise RefInvalid(OTHER, "groups is %s" % type(g).__name__)
                else:
                    parsed['groups'] = {gn: _ref_table(gt) for gn, gt in g.items()}
            result[name] = parsed
        elif keys <= set(OT.__members__):
            result[name] = {'preset': _ref_table(pol)}
        else:
            raise RefInvalid(INVALID_LISTED, "unknown section")
    return (OTHER if lenient else VALID), result


# ---------------------------------------------------------------------------------------------
# (ii) documents
# ---------------------------------------------------------------------------------------------
TBL_A = {"CERTIFICATE": {"LOCATE": "ALLOW_ALL", "GET": "ALLOW_OWNER"},
         "SYMMETRIC_KEY": {"GET": "DISALLOW_ALL"}}
TBL_B = {"SECRET_DATA": {"DESTROY": "ALLOW_OWNER"}}
BASE_DOCS = {
    'legacy': {"pol": TBL_A},
    'preset': {"pol": {"preset": TBL_A}},
    'groups': {"pol": {"groups": {"g1": TBL_A, "g2": TBL_B}}},
    'both': {"pol": {"preset": TBL_B, "groups": {"g1": TBL_A}}},
    'two': {"p1": {"preset": TBL_B}, "p2": TBL_B},
}
REPLACEMENTS = [None, 5, "x", [], [1], True, {}, {"BOGUS": 1}, {"BOGUS": {"GET": "ALLOW_ALL"}},
                "ALLOW_ALL", "allow_all", ""]
KEY_RENAMES = ["BOGUS", "", "preset", "groups", "CERTIFICATE", "GET", "get", "certificate"]


def _paths(doc, path=()):
    yield path
    if isinstance(doc, dict):
        for k in doc:
            yield from _paths(doc[k], path + (k,))


def _apply_fault(doc, fault):
    kind, path, arg = fault
    doc = copy.deepcopy(doc)
    if kind == 'value':
        if not path:
            return arg
        d = doc
        for k in path[:-1]:
            d = d[k]
        d[path[-1]] = arg
        return doc
    if kind == 'rename':
        d = doc
        for k in path[:-1]:
            d = d[k]
        if arg in d and arg != path[-1]:
            return None
        d[arg] = d.pop(path[-1])
        return doc
    if kind == 'delete':
        d = doc
        for k in path[:-1]:
            d = d[k]
        del d[path[-1]]
        return doc
    raise ValueError(kind)


def faults_for(doc):
    out = []
    for p in _paths(doc):
        for r in REPLACEMENTS:
            out.append(('value', p, r))
        if p:
            for r in KEY_RENAMES:
                out.append(('rename', p, r))
            out.append(('delete', p, None))
    return out


def _prefix(a, b):
    return a[:len(b)] == b or b[:len(a)] == a


def documents(tier):
    """Yield (label, text)."""
    for name, doc in BASE_DOCS.items():
        yield (name, []), json.dumps(doc)
        fs = faults_for(doc)
        for f in fs:
            d = _apply_fault(doc, f)
            if d is not None or f[0] == 'value':
                yield (name, [f]), json.dumps(d)
        if tier == 'thorough' or name in ('both', 'legacy'):
            for f1, f2 in itertools.combinations(fs, 2):
                if _prefix(f1[1], f2[1]):
                    continue
                d = _apply_fault(doc, f1)
                if d is None:
                    continue
                try:
                    d = _apply_fault(d, f2)
                except (KeyError, TypeError, AttributeError):
                    continue
                if d is None:
                    continue
                yield (name, [f1, f2]), json.dumps(d)
    # raw-text faults (bad JSON)
    good = json.dumps(BASE_DOCS['both'])
    for i in range(0, len(good) + 1):
        yield ('both', [('truncate', i)]), good[:i]
    for i in range(0, len(good), 3):
        for ch in '{}[]",:x':
            yield ('both', [('char', i, ch)]), good[:i] + ch + good[i + 1:]
    for txt in ['', ' ', 'null', '[]', '[{}]', '"str"', '5', 'true', '{}', '{"a": {}}',
                '{"a": null}', '{"a": 1}', '{"a": []}', '{"a": {"preset": null}}',
                '{"a": {"preset": {}, "groups": {}}}', '﻿{}', '{"a":{"preset":{"CERTIFICATE":{}}}}',
                '{"a":{"CERTIFICATE":{}}}', '{"a":{"CERTIFICATE":null}}',
                '{"a":{"groups":{"g":null}}}', '{"a":{"groups":[]}}', '{"a":{"groups":"g"}}',
                '{"a":{"preset":{"CERTIFICATE":{"GET":null}}}}',
                '{"a":{"preset":{"CERTIFICATE":{"GET":["ALLOW_ALL"]}}}}',
                '{"a":{"preset":{"CERTIFICATE":{"GET":1}}}}']:
        yield ('literal', [txt]), txt


def check_document(path, text):
    """Returns (class, outcome, violation-or-None)."""
    with open(path, 'w') as f:
        f.write(text)
    try:
        cls, expected = ref_parse(text)
        why = ''
    except RefInvalid as e:
        cls, expected, why = ('reject-' + e.cls), None, str(e)
    try:
        got = core_policy.read_policy_from_file(path)
        outcome = 'accepted'
    except ValueError:
        got, outcome = None, 'ValueError'
    except Exception as e:
        got, outcome = None, type(e).__name__
    viol = None
    if outcome not in ('accepted', 'ValueError'):
        viol = ("exc=%s" % outcome,
                "read_policy_from_file raised %s (the monitor only survives ValueError); %s" % (
                    outcome, why or cls))
    elif cls == VALID:
        if outcome != 'accepted':
            viol = ("valid-rejected", "a valid document was rejected")
        elif got != expected:
            viol = ("valid-misparsed", "parsed %r, expected %r" % (got, expected))
    elif cls == 'reject-' + INVALID_LISTED:
        if outcome == 'accepted':
            viol = ("invalid-accepted|%s" % why.split(' %')[0][:40],
                    "an invalid document (%s) was accepted as %r" % (why, got))
    return cls, outcome, viol


def _doc_worker(task):
    tier, shard, nshards = task
    part = Part()
    d = tempfile.mkdtemp(prefix='verif-c18d-', dir=W.SCRATCH_BASE)
    outcomes = set()
    try:
        p = os.path.join(d, 'doc.json')
        for i, (label, text) in enumerate(documents(tier)):
            if i % nshards != shard:
                continue
            cls, outcome, viol = check_document(p, text)
            part.count('documents')
            outcomes.add((cls, outcome))
            if outcome != 'accepted' or len(label[1]) > 0:
                part.count('documents_nontrivial')
            if viol:
                key, what = viol
                import re as _re
                fault_sig = _re.sub(r" is \w+$", "", what.split('; ')[-1])[:60]
                part.violation("doc|%s|%s" % (key, fault_sig), what + " :: " + text[:200],
                               {'document': text})
            if i < 3 * nshards:
                part.sample({'document': text[:160], 'class': cls, 'library': outcome})
    finally:
        shutil.rmtree(d, ignore_errors=True)
    out = part.as_dict()
    out['outcomes'] = sorted(outcomes)
    return out


def _pos_class(f):
    if f[0] in ('truncate', 'char'):
        return 'text'
    path = f[1]
    depth = len(path)
    leaf = path[-1] if path else 'top'
    arg = f[2]
    a = 'null' if arg is None else type(arg).__name__
    return "d%d/%s->%s" % (depth, 'section' if leaf in ('preset', 'groups') else
                           ('top' if not path else 'node'), a)


# ---------------------------------------------------------------------------------------------
# (i) monitor BFS
# ---------------------------------------------------------------------------------------------
X = {"SYMMETRIC_KEY": {"GET": "ALLOW_ALL"}}
Y = {"SYMMETRIC_KEY": {"GET": "ALLOW_OWNER"}}
Z = {"CERTIFICATE": {"LOCATE": "DISALLOW_ALL"}}
CONTENTS = {
    'pX': json.dumps({"p": X}),
    'pY': json.dumps({"p": {"preset": Y}}),
    'pXqZ': json.dumps({"p": X, "q": Z}),
    'qZ': json.dumps({"q": {"groups": {"g": Z}}}),
    'default+pY': json.dumps({"default": X, "p": Y, "public": Z}),
    'p_empty': json.dumps({"p": {}}),
    # a valid definition of p with nothing in it (sections present but empty): p exists and denies all
    'p_hollow': json.dumps({"p": {"groups": {}}}),
    'badjson': '{"p": ',
    'badperm': json.dumps({"p": {"SYMMETRIC_KEY": {"GET": "ALLOW_SOME"}}}),
    'empty': '{}',
}
FILES3 = ['a.json', 'b.json', 'c.json']


def events(files, tier):
    ev = []
    for f in files:
        for c in CONTENTS:
            ev.append((('w', f, c),))
        ev.append((('r', f),))
        # the file comes back with an OLD modification time (renamed away and back, restored from a
        # backup, cp -p): applicable only while the file is absent
        ev.append((('o', f, 'pY'),))
    # simultaneous changes to two files within one scan
    f0, f1 = files[0], files[1]
    ev += [(('r', f0), ('r', f1)), (('w', f0, 'pX'), ('w', f1, 'pY')),
           (('w', f0, 'pY'), ('r', f1)), (('r', f0), ('w', f1, 'pXqZ'))]
    return ev


class Model(object):
    """Per file: last successfully loaded definitions + load stamp."""

    def __init__(self):
        self.files = {}      # fname -> (stamp, {name: definition})
        self.present = set()
        self.stamp = 0

    def apply(self, changes_sorted_loads, removed):
        for f in removed:
            self.files.pop(f, None)
            self.present.discard(f)
        for f, text in changes_sorted_loads:      # in the order the directory scan loads them
            self.present.add(f)
            try:
                cls, defs = ref_parse(text)
            except RefInvalid:
                continue
            self.stamp += 1
            defs = {k: v for k, v in defs.items() if k not in ('default', 'public')}
            self.files[f] = (self.stamp, defs)

    def expected_store(self):
        best = {}
        for f, (stamp, defs) in self.files.items():
            for name, d in defs.items():
                if name not in best or best[name][0] < stamp:
                    best[name] = (stamp, d)
        return {k: v[1] for k, v in best.items()}

    def canon(self):
        order = sorted(self.files, key=lambda f: self.files[f][0])
        return tuple((f, json.dumps(_j(self.files[f][1]), sort_keys=True)) for f in order)


def _j(x):
    if isinstance(x, dict):
        return {(_k.name if hasattr(_k, 'name') else str(_k)): _j(v) for _k, v in x.items()}
    if hasattr(x, 'name'):
        return x.name
    return x


BUILTIN = dict(core_policy.policies)


class Run(object):
    """A real monitor on a real directory, driven event by event."""

    def __init__(self, files):
        self.dir = tempfile.mkdtemp(prefix='verif-c18m-', dir=W.SCRATCH_BASE)
        self.store = dict(BUILTIN)
        self.mon = monitor_mod.PolicyDirectoryMonitor(self.dir, self.store, live_monitoring=False)
        self.model = Model()
        self.contents = {}
        self.tick = 0
        self.files = files

    def close(self):
        shutil.rmtree(self.dir, ignore_errors=True)

    def apply(self, event):
        """Returns list of violations (key, what) after applying one event."""
        self.tick += 1
        W.CLOCK.now = W.T0 + self.tick
        loads, removed = [], []
        for ch in event:
            p = os.path.join(self.dir, ch[1])
            if ch[0] == 'w' or (ch[0] == 'o' and ch[1] not in self.contents):
                with open(p, 'w') as f:
                    f.write(CONTENTS[ch[2]])
                stamp = W.T0 + self.tick if ch[0] == 'w' else W.T0 - 100
                os.utime(p, (stamp, stamp))
                self.contents[ch[1]] = ch[2]
                loads.append((ch[1], CONTENTS[ch[2]]))
            elif ch[0] == 'o':
                pass        # present: not applicable
            else:
                if ch[1] in self.contents:
                    os.unlink(p)
                    del self.contents[ch[1]]
                    removed.append(ch[1])
        loads.sort()
        self.model.apply(loads, removed)
        bad = []
        try:
            self.mon.scan_policies()
        except Exception as e:
            bad.append(("scan-raises|%s" % type(e).__name__,
                        "scan_policies raised %s: %s" % (type(e).__name__, e)))
            return bad
        for r in ('default', 'public'):
            if self.store.get(r) is not BUILTIN[r]:
                bad.append(("reserved|%s" % r, "built-in policy %r was replaced or removed" % r))
        got = {k: v for k, v in self.store.items() if k not in ('default', 'public')}
        exp = self.model.expected_store()
        for name in sorted(set(got) | set(exp)):
            if name not in exp:
                bad.append(("stale|%s" % name,
                            "policy %r is in force although no file defines it" % name))
            elif name not in got:
                bad.append(("missing|%s" % name, "policy %r is defined by a file but not in force"
                            % name))
            elif got[name] != exp[name]:
                bad.append(("wrong-def|%s" % name,
                            "policy %r maps to %s, expected the definition from the most recently "
                            "loaded file: %s" % (name, _j(got[name]), _j(exp[name]))))
        return bad

    def canon(self):
        m = self.mon
        cache = tuple(sorted((p, tuple((os.path.basename(e[1]), json.dumps(_j(e[2]), sort_keys=True))
                                       for e in c)) for p, c in m.policy_cache.items()))
        pmap_ = tuple(sorted((p, os.path.basename(f)) for p, f in m.policy_map.items()))
        store = tuple(sorted((k, json.dumps(_j(v), sort_keys=True)) for k, v in self.store.items()
                             if k not in ('default', 'public')))
        return (tuple(sorted(self.contents.items())), cache, pmap_, store,
                tuple(sorted(os.path.basename(f) for f in m.file_timestamps)), self.model.canon())


def build(files, hist):
    r = Run(files)
    bad = []
    for ev in hist:
        bad = r.apply(ev)
    return r, bad


def bfs(files, depth, tier, part, first_events=None):
    evs = events(files, tier)
    seen = set()
    r0, _ = build(files, [])
    seen.add(r0.canon())
    r0.close()
    frontier = [[]]
    d = 0
    while frontier and d < depth:
        nxt = []
        for hist in frontier:
            for ev in (first_events if (d == 0 and first_events is not None) else evs):
                r, bad = build(files, hist + [ev])
                try:
                    part.count('transitions')
                    for key, what in bad:
                        part.violation("mon|" + key,
                                       what + " after " + str(_fmt(hist + [ev])),
                                       {'files': files, 'history': hist + [ev]})
                    k = r.canon()
                    if bad and any(b[0].startswith('scan-raises') for b in bad):
                        continue
                    if k not in seen:
                        seen.add(k)
                        nxt.append(hist + [ev])
                finally:
                    r.close()
        frontier = nxt
        d += 1
    part.count('states', len(seen))
    if frontier:
        part.sample({'files': files, 'history': _fmt(frontier[-1])})
    return len(seen)


def _fmt(hist):
    return [' & '.join('%s %s%s' % (c[0], c[1], '=' + c[2] if len(c) > 2 else '') for c in ev)
            for ev in hist]


def _shape(hist):
    """Identity of a failing history up to renaming: the sequence of (op, file, content)."""
    return '>'.join('&'.join('%s%s%s' % (c[0], c[1][0], ':' + c[2] if len(c) > 2 else '')
                             for c in ev) for ev in hist)


def _mon_worker(task):
    files, depth, tier, first = task
    signal.signal(signal.SIGINT, signal.SIG_DFL)
    part = Part()
    bfs(files, depth, tier, part, first_events=[first])
    return part.as_dict()


def run(tier, seed):
    rep = Reporter('C18', 'model_checking', tier, seed)
    # (i)
    configs = [(FILES3[:2], 4)] if tier == 'quick' else [(FILES3[:2], 5), (FILES3, 4)]
    tasks = []
    for files, depth in configs:
        for ev in events(files, tier):
            tasks.append((files, depth, tier, ev))
    for part in pmap(_mon_worker, tasks):
        rep.merge(part)
    # (ii)
    n = 16
    outcomes = set()
    for part in pmap(_doc_worker, [(tier, i, n) for i in range(n)]):
        outcomes.update(tuple(o) for o in part.pop('outcomes', []))
        rep.merge(part)
    if rep.counters.get('states', 0) < 100 or len(outcomes) < 4:
        rep.harness_error("vacuous exploration: states=%s doc outcomes=%s" % (
            rep.counters.get('states'), sorted(outcomes)))
    return rep.finish(dict(
        states=rep.counters.get('states', 0), transitions=rep.counters.get('transitions', 0),
        traces_validated_against_impl=rep.counters.get('transitions', 0),
        max_depth=max(d for _, d in configs), files=[len(f) for f, _ in configs],
        events_per_step=len(events(FILES3[:2], tier)),
        documents=rep.counters.get('documents', 0),
        documents_nontrivial=rep.counters.get('documents_nontrivial', 0),
        document_outcome_classes=sorted(outcomes),
        exhaustive=False,
        explanation="(i) BFS with state deduplication (per first event, so states are counted per "
                    "first-event subtree) over all file-event sequences up to max_depth on the real "
                    "monitor; every transition is one real scan_policies() on a real directory, "
                    "judged by the latest-loaded-definition model. (ii) every policy document with "
                    "0/1/2 structural faults at every JSON node plus every truncation and character "
                    "fault of the serialised text, judged by an independent parser.",
    ), assumptions=[
        "mtimes are set by the harness and strictly increase with every write",
        "definitions are compared as parsed by the independent reference parser",
        "documents of undocumented shape (wrong JSON types, empty sections) may be accepted or "
        "rejected, but only with ValueError",
    ])


def replay(doc):
    if 'document' in doc:
        d = tempfile.mkdtemp(prefix='verif-c18r-', dir=W.SCRATCH_BASE)
        try:
            cls, outcome, viol = check_document(os.path.join(d, 'doc.json'), doc['document'])
            return bool(viol), "class=%s library=%s %s" % (cls, outcome, viol or '')
        finally:
            shutil.rmtree(d, ignore_errors=True)
    hist = [tuple(tuple(c) for c in ev) for ev in doc['history']]
    r = Run(doc['files'])
    try:
        lines, bad = [], []
        for ev in hist:
            bad = r.apply(ev)
            lines.append("%s -> store=%s %s" % (_fmt([ev]), sorted(
                k for k in r.store if k not in ('default', 'public')), bad or ''))
        return bool(bad), '\n'.join(lines)
    finally:
        r.close()
