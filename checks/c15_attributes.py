"""C15 - attribute operations change only what they may, exactly as asked.

Explicit-state BFS (dedup on the full attribute snapshot of the whole store) over sequences of
SetAttribute / ModifyAttribute / DeleteAttribute in the KMIP 1.x index form and the 2.0
current/new/reference form on the real engine. Oracle: an attribute-store model applied to an
independent raw-SQLite snapshot + whole-store frame condition + GetAttributes agreement.
"""
import copy
import json
import os
import shutil
import tempfile

from mc import world as W
from mc.world import enums, CUM, AT
from mc.ref import store as ref_store
from mc.report import Reporter, Part
from mc.par import pmap

E = enums
MULTI = {'Name': 'names', 'Object Group': 'groups', 'Application Specific Information': 'appinfo'}
NEVER = ['uid', 'object_type', 'state', 'owner', 'policy', 'mask', 'algorithm', 'length',
         'initial_date']
KINDS = ['SymmetricKey', 'PublicKey', 'PrivateKey', 'SplitKey', 'SecretData', 'Certificate',
         'OpaqueObject']


def build_store(kind):
    """Target T (uid 1) of `kind` owned by alice and a bystander B (uid 2) with the SAME attribute
    values (same names are not allowed twice per object, but across objects they are)."""
    W.CLOCK.now = W.T0
    w = W.World()
    for i in range(2):
        # three instances each: after one is deleted the stored indices have a hole, and "the
        # instance at position i" and "the instance with stored index i" are different things
        attrs = W.common_attrs(names=['n0', 'n1', 'n2'], groups=['g0', 'g1', 'g2'],
                               appinfo=[('ns', 'd0'), ('ns', 'd1'), ('ns', 'd2')], sensitive=False)
        if kind != 'OpaqueObject' or i == 1:
            pass
        base_kind = kind.split(':')[0]
        pie = W.KINDS[base_kind]() if i == 0 else W.pie_symmetric(b'\x77' * 16)
        if not ((kind == 'OpaqueObject' or kind.endswith(':nomask')) and i == 0):
            attrs.append(W.attr(AT.CRYPTOGRAPHIC_USAGE_MASK, [CUM.ENCRYPT]))
        r = w.do((1, 4), W.p_register(pie, attrs))
        assert r.items[0].ok(), r.brief()
    return w


# ---------------------------------------------------------------------------------------------
# the alphabet: symbolic actions, materialised against the current snapshot
# ---------------------------------------------------------------------------------------------
def _val(attr_name, v):
    """harness value -> value accepted by the attribute factory"""
    if attr_name == 'Application Specific Information':
        return {"application_namespace": v[0], "application_data": v[1]}
    return v


NEWV = {'Name': 'fresh', 'Object Group': 'gfresh', 'Application Specific Information': ('ns', 'fresh')}
ABSENTV = {'Name': 'nosuch', 'Object Group': 'gnosuch',
           'Application Specific Information': ('ns', 'nosuch')}


def actions():
    out = []
    for a in MULTI:
        for idx in (None, 0, 1, 2, 3, -1):
            for val in ('new', 'equal', 'dup') + (('empty',) if idx in (None, 0, 1) else ()):
                out.append(('modify1x', a, idx, val, 'alice'))
        for cur in ('v0', 'v1', 'vlast', 'absent', None):
            for val in ('new', 'dup'):
                out.append(('modify20', a, cur, val, 'alice'))
        for idx in (None, 0, 1, 2, 3, -1):
            out.append(('delete1x', a, idx, None, 'alice'))
        for cur in ('v0', 'v1', 'vlast', 'absent', 'ref'):
            out.append(('delete20', a, cur, None, 'alice'))
        out.append(('set20', a, None, 'new', 'alice'))
        out.append(('set20', a, None, 'empty', 'alice'))
        out.append(('modify20', a, 'v0', 'empty', 'alice'))
        out.append(('modify1x', a, 0, 'new', 'bob'))
        out.append(('delete20', a, 'ref', None, 'bob'))
    for v in (True, False):
        out.append(('modify1x', 'Sensitive', None, v, 'alice'))
        out.append(('modify1x', 'Sensitive', 0, v, 'alice'))
        out.append(('set20', 'Sensitive', None, v, 'alice'))
        for cur in (None, True, False):
            out.append(('modify20', 'Sensitive', cur, v, 'alice'))
    out.append(('delete1x', 'Sensitive', None, None, 'alice'))
    out.append(('delete20', 'Sensitive', 'ref', None, 'alice'))
    out.append(('set20', 'Sensitive', None, True, 'bob'))
    # every other attribute name in the rule table (+ two outside it), one value each
    OTHER = {
        'Unique Identifier': '77', 'Object Type': E.ObjectType.SECRET_DATA,
        'Cryptographic Algorithm': E.CryptographicAlgorithm.DES, 'Cryptographic Length': 64,
        'Cryptographic Parameters': {'block_cipher_mode': E.BlockCipherMode.CBC},
        'Certificate Type': E.CertificateType.PGP, 'Certificate Length': 5,
        'Operation Policy Name': 'public',
        'Cryptographic Usage Mask': [CUM.SIGN, CUM.ENCRYPT], 'Lease Time': 60,
        'State': E.State.ACTIVE, 'Initial Date': W.T0 - 99, 'Activation Date': W.T0 - 5,
        'Process Start Date': W.T0, 'Protect Stop Date': W.T0, 'Deactivation Date': W.T0,
        'Destroy Date': W.T0, 'Compromise Occurrence Date': W.T0, 'Compromise Date': W.T0,
        'Archive Date': W.T0, 'Fresh': True, 'Contact Information': 'me@example.org',
        'Last Change Date': W.T0, 'Digest': None, 'x-custom': 'v',
    }
    for name, v in OTHER.items():
        out.append(('modify1x', name, None, v, 'alice'))
        out.append(('modify20', name, None, v, 'alice'))
        out.append(('set20', name, None, v, 'alice'))
        out.append(('delete1x', name, None, None, 'alice'))
        out.append(('delete20', name, 'ref', None, 'alice'))
    return out


ACTIONS = actions()


class Skip(Exception):
    pass


def materialise(action, snap, uid='1'):
    """Returns (version, item, resolved) where resolved describes the addressed instance."""
    form, name, sel, val, user = action
    o = snap[uid]
    cur = list(o.get(MULTI[name], [])) if name in MULTI else None

    def pick(v, idx_for_equal=None):
        if name not in MULTI:
            return v
        if v == 'new':
            return NEWV[name]
        if v == 'empty':       # the falsy value of the type
            return ('', '') if name == 'Application Specific Information' else ''
        if v == 'equal':
            i = idx_for_equal or 0
            return cur[i] if 0 <= i < len(cur) else NEWV[name]
        if v == 'dup':
            i = idx_for_equal or 0
            others = [c for j, c in enumerate(cur) if j != i]
            return others[0] if others else NEWV[name]
        return v

    def curval(sel_):
        if name not in MULTI:
            return sel_
        if sel_ == 'v0':
            return cur[0] if len(cur) > 0 else ABSENTV[name]
        if sel_ == 'v1':
            return cur[1] if len(cur) > 1 else ABSENTV[name]
        if sel_ == 'vlast':
            return cur[-1] if cur else ABSENTV[name]
        if sel_ == 'absent':
            return ABSENTV[name]
        return None

    try:
        at = AT(name) if name in [a.value for a in AT] else name
        if form == 'modify1x':
            v = pick(val, sel if isinstance(sel, int) else 0)
            item = W.p_modify_attribute_1x(uid, at, _val(name, v), sel)
            return (1, 4), item, ('index', sel, v)
        if form == 'delete1x':
            return (1, 4), W.p_delete_attribute_1x(uid, name, sel), ('index', sel, None)
        if form == 'set20':
            v = pick(val)
            return (2, 0), W.p_set_attribute(uid, at, _val(name, v)), ('set', None, v)
        if form == 'modify20':
            c = curval(sel)
            v = pick(val, cur.index(c) if (cur and c in cur) else 0)
            item = W.p_modify_attribute_20(uid, at, _val(name, v),
                                           _val(name, c) if c is not None else None)
            return (2, 0), item, ('current', c, v)
        if form == 'delete20':
            if sel == 'ref':
                return (2, 0), W.p_delete_attribute_20(uid, at if name != 'x-custom' else name), \
                    ('ref', None, None)
            c = curval(sel)
            return (2, 0), W.p_delete_attribute_20(uid, at, _val(name, c)), ('current', c, None)
    except (NotImplementedError, TypeError, ValueError, AttributeError, KeyError) as e:
        raise Skip("%s: %s" % (type(e).__name__, e))
    raise ValueError(form)


def model_apply(action, resolved, before_obj):
    """Expected attribute lists of the TARGET after a SUCCESSFUL call; None = success impossible
    (no such instance / not alterable), 'unobservable' = the server cannot store it."""
    form, name, sel, val, user = action
    how, key, v = resolved
    o = copy.deepcopy(before_obj)
    if name in MULTI:
        f = MULTI[name]
        cur = o[f]
        if form == 'set20':
            return None
        if how == 'index':
            i = 0 if key is None else key
            if not (0 <= i < len(cur)):
                return None
            if form == 'modify1x':
                cur[i] = v
            else:
                cur.pop(i)
            return o
        if how == 'current':
            if key is None or key not in cur:
                return None
            i = cur.index(key)
            if form == 'modify20':
                cur[i] = v
            else:
                cur.pop(i)
            return o
        if how == 'ref':
            o[f] = []
            return o
    if name == 'Sensitive':
        if form in ('delete1x', 'delete20'):
            return None
        if form == 'modify1x' and sel is not None:
            return None     # an index on a single-valued attribute
        if form == 'modify20' and key is not None and key != o['sensitive']:
            return None
        o['sensitive'] = v
        return o
    return 'unalterable-or-unstored'


def norm(o):
    return {k: ([list(x) if isinstance(x, tuple) else x for x in v] if isinstance(v, list) else v)
            for k, v in o.items() if k not in ('key_row', 'split', 'value', 'name_types')}


def get_attributes_view(w, uid, user='alice'):
    r = w.do((1, 4), W.p_get_attributes(uid), user=user)
    it = r.items[0]
    if not it.ok():
        return None
    out = {'names': [], 'groups': [], 'appinfo': [], 'sensitive': None}
    T = W.TAG
    for a in W.ttlv.find_all(it.payload, T.ATTRIBUTE.value):
        n = W.ttlv.find(a, T.ATTRIBUTE_NAME.value)[2]
        v = W.ttlv.find(a, T.ATTRIBUTE_VALUE.value)
        if n == 'Name':
            out['names'].append(W.ttlv.find(v, T.NAME_VALUE.value)[2])
        elif n == 'Object Group':
            out['groups'].append(v[2])
        elif n == 'Application Specific Information':
            out['appinfo'].append([W.ttlv.find(v, T.APPLICATION_NAMESPACE.value)[2],
                                   W.ttlv.find(v, T.APPLICATION_DATA.value)[2]])
        elif n == 'Sensitive':
            out['sensitive'] = v[2]
    return out


def step(w, action, part, kind, path):
    """Apply one action to world w (mutates it). Returns canonical key of the new state."""
    before_dump = w.dump()
    before = ref_store.objects(before_dump)
    try:
        version, item, resolved = materialise(action, before)
    except Skip:
        part.count('skipped_unconstructible')
        return None
    W.CLOCK.now = W.T0 + 10 + len(path)
    try:
        r = w.do(version, item, user=action[4])
    except (W.exceptions.KmipError, W.exceptions.AttributeNotSupported,
            W.exceptions.VersionNotSupported):
        part.count('skipped_unencodable')      # the library refuses to encode it for this version
        return None
    it = r.items[0]
    after_dump = w.dump()
    after = ref_store.objects(after_dump)
    part.count('transitions')
    part._alone = (it.status, it.reason, it.message, {u: norm(o) for u, o in after.items()})
    ctx = {'kind': kind, 'path': [list(a) for a in path + [action]]}
    akey = "%s|%s|%s" % (action[0], action[1] if action[1] in MULTI or action[1] == 'Sensitive'
                         else 'other:' + action[1], _selk(action))
    part.counters.setdefault('_out', set()).add((akey, it.ok(), it.reason))

    # never-alterable attributes and owners, on every object, whatever the answer
    for u in before:
        for f in NEVER:
            if u in after and before[u].get(f) != after[u].get(f):
                part.violation("never-alterable|%s|%s" % (f, action[0]),
                               "%s of object %s changed from %r to %r by %s (%s)" % (
                                   f, u, before[u].get(f), after[u].get(f), action, it.brief()), ctx)
    if not it.ok():
        if W.db_key(before_dump) != W.db_key(after_dump):
            part.violation("failure-changes-store|%s" % akey,
                           "%s answered %s but the store changed: %s" % (
                               action, it.brief(), _diff(before, after)), ctx)
    else:
        exp = model_apply(action, resolved, before['1'])
        if exp is None:
            part.violation("success-without-instance|%s" % akey,
                           "%s (resolved %s) succeeded although it addresses no existing / "
                           "alterable instance; target was %s, is now %s" % (
                               action, resolved, _brief(before['1']), _brief(after['1'])), ctx)
        elif exp == 'unalterable-or-unstored':
            if norm(before['1']) == norm(after['1']):
                part.violation("success-without-effect|%s" % akey,
                               "%s reported success but nothing changed (GetAttributes cannot "
                               "reflect it)" % (action,), ctx)
            else:
                part.violation("unexpected-change|%s" % akey,
                               "%s changed %s" % (action, _diff(before, after)), ctx)
        else:
            if norm(after['1']) != norm(exp):
                part.violation("wrong-effect|%s" % akey,
                               "%s (resolved %s): target is %s, expected %s (was %s)" % (
                                   action, resolved, _brief(after['1']), _brief(exp),
                                   _brief(before['1'])), ctx)
        for u in before:
            if u != '1' and norm(before[u]) != norm(after.get(u, {})):
                part.violation("frame|other-object-changed|%s" % akey,
                               "%s on object 1 changed object %s: %s -> %s" % (
                                   action, u, _brief(before[u]), _brief(after.get(u, {}))), ctx)
        view = get_attributes_view(w, '1')
        if view is not None:
            a1 = norm(after['1'])
            mine = {'names': a1['names'], 'groups': a1['groups'], 'appinfo': a1['appinfo'],
                    'sensitive': a1['sensitive']}
            if view != mine:
                part.violation("getattributes-disagrees|%s" % akey,
                               "GetAttributes reports %s, the store holds %s" % (view, mine), ctx)
    return json.dumps({u: norm(o) for u, o in after.items()}, sort_keys=True, default=str)


EMBEDDINGS = ('continue-then-create', 'create-then', 'then-fail-stop', 'then-fail-continue')


def embed(w, action, part, kind, path, how):
    """Differential oracle without a hand-written expectation: the same action, on a clone of the
    same store, sent inside a batch together with a Create (which commits), must get the same
    result and leave objects 1 and 2 exactly as the stand-alone request left them.
      continue-then-create: [action, Create] with Batch Error Continuation Option = Continue - a
                            failed action must not leave work behind that the next item commits;
      create-then:          [Create, action] - an earlier item of the batch must not change what
                            the action does;
      then-fail-stop/continue: [action, Get of an unknown id] - a LATER item's failure must not take
                            back what the action was acknowledged to have done."""
    alone = getattr(part, '_alone', None)
    if alone is None:
        return
    before = ref_store.objects(w.dump())
    try:
        version, item, resolved = materialise(action, before)
    except Skip:
        return
    W.CLOCK.now = W.T0 + 10 + len(path)
    create = W.p_create(W.sym_attrs(masks=[CUM.ENCRYPT]))
    try:
        if how == 'continue-then-create':
            r = w.do(version, [item, create], user=action[4],
                     error_option=E.BatchErrorContinuationOption.CONTINUE)
            mine, other = 0, 1
        elif how.startswith('then-fail'):
            r = w.do(version, [item, W.p_get('424242')], user=action[4],
                     **({'error_option': E.BatchErrorContinuationOption.CONTINUE} if how.endswith('continue')
                        else {}))
            mine, other = 0, 1
        else:
            r = w.do(version, [create, item], user=action[4])
            mine, other = 1, 0
    except (W.exceptions.KmipError, W.exceptions.AttributeNotSupported,
            W.exceptions.VersionNotSupported):
        return
    part.count('batch_embeddings')
    ctx = {'kind': kind, 'path': [list(a) for a in path + [action]], 'embed': how}
    akey = "%s|%s|%s" % (action[0], action[1] if action[1] in MULTI or action[1] == 'Sensitive'
                         else 'other:' + action[1], _selk(action))
    if how.startswith('then-fail'):
        if not r.items or (r.items[0].ok() and (len(r.items) != 2 or r.items[1].ok())):
            part.violation("embedding|shape|%s|%s" % (how, akey), "batch %s around %s: answers %s" % (
                how, action, r.brief()), ctx)
            return
    elif len(r.items) != 2 or not r.items[other].ok():
        part.violation("embedding|create-failed|%s|%s" % (how, akey),
                       "batch %s around %s: answers %s (the Create item must succeed)" % (
                           how, action, r.brief()), ctx)
        return
    it = r.items[mine]
    if (it.status, it.reason, it.message) != alone[:3]:
        part.violation("embedding|result-differs|%s|%s" % (how, akey),
                       "%s answered %s inside batch %s but (%s, %s, %s) as a request of its own" % (
                           action, it.brief(), how, alone[0], alone[1], alone[2]), ctx)
    after = {u: norm(o) for u, o in ref_store.objects(w.dump()).items()}
    for u in ('1', '2'):
        if after.get(u) != alone[3].get(u):
            part.violation("embedding|effect-differs|%s|%s" % (how, akey),
                           "%s (answer %s) inside batch %s leaves object %s as %s; as a request of its "
                           "own it leaves %s" % (action, it.brief(), how, u, _brief(after.get(u, {})),
                                                 _brief(alone[3].get(u, {}))), ctx)


def _selk(action):
    form, name, sel, val, user = action
    return "%s/%s/%s" % (sel, val if name in MULTI else ('v' if val is not None else '-'), user)


def _brief(o):
    return {k: o.get(k) for k in ('names', 'groups', 'appinfo', 'sensitive')}


def _diff(b, a):
    out = []
    for u in b:
        if norm(b[u]) != norm(a.get(u, {})):
            out.append("object %s: %s -> %s" % (u, _brief(b[u]), _brief(a.get(u, {}))))
    return '; '.join(out) or 'raw rows only (counters/ids)'


def bfs(kind, depth, first_actions, part, embeddings=1, embed_all=False):
    tmp = tempfile.mkdtemp(prefix='verif-c15-', dir=W.SCRATCH_BASE)
    try:
        w0 = build_store(kind)
        root = os.path.join(tmp, 's0.db')
        shutil.copyfile(w0.db, root)
        w0.close()
        seen = set()
        frontier = [(root, [])]
        n_files = 1
        for d in range(depth):
            nxt = []
            for dbfile, path in frontier:
                for action in (first_actions if d == 0 else ACTIONS):
                    w = W.World(db_from=dbfile)
                    try:
                        part._alone = None
                        k = step(w, action, part, kind, path)
                        if k is not None and (d == 0 or (embed_all and d <= 1)):
                            # every embedding at the root; below it (thorough tier) the two that put a
                            # committing item next to the action
                            for how in (EMBEDDINGS[:embeddings] if d == 0 else EMBEDDINGS[:2]):
                                with W.World(db_from=dbfile) as w2:
                                    embed(w2, action, part, kind, path, how)
                        if k is not None and k not in seen:
                            seen.add(k)
                            if d + 1 < depth:
                                f = os.path.join(tmp, 's%d.db' % n_files)
                                n_files += 1
                                w.engine._data_store.dispose()
                                shutil.copyfile(w.db, f)
                                nxt.append((f, path + [action]))
                    finally:
                        w.close()
            frontier = nxt
        part.count('states', len(seen))
        return len(seen)
    finally:
        shutil.rmtree(tmp, ignore_errors=True)


def _worker(task):
    kind, depth, firsts, embed_all = task
    part = Part()
    bfs(kind, depth, firsts, part, embeddings=len(EMBEDDINGS), embed_all=embed_all)
    part.sample({'kind': kind, 'depth': depth, 'first_actions': [list(map(str, a)) for a in firsts[:2]]})
    out = part.as_dict()
    out['out'] = sorted(part.counters.pop('_out', set()), key=repr)
    return out


def run(tier, seed):
    rep = Reporter('C15', 'model_checking', tier, seed)
    tasks = []
    main_depth = 2 if tier == 'quick' else 3
    n = 32
    for i in range(n):
        tasks.append(('SymmetricKey', main_depth, ACTIONS[i::n], tier != 'quick'))
    for k in KINDS[1:] + ['SymmetricKey:nomask', 'SecretData:nomask']:
        d = 1 if tier == 'quick' else 2
        for i in range(4):
            tasks.append((k, d, ACTIONS[i::4], tier != 'quick'))
    outs = set()
    for part in pmap(_worker, tasks):
        outs.update(repr(o) for o in part.pop('out', []))
        rep.merge(part)
    t = rep.counters.get('transitions', 0)
    succ = len([o for o in outs if ', True,' in o])
    if succ < 15 or len(outs) < 100:
        rep.harness_error("vacuous: %d outcome classes, %d succeeding" % (len(outs), succ))
    return rep.finish(dict(
        states=rep.counters.get('states', 0), transitions=t, traces_validated_against_impl=t,
        max_depth=main_depth, actions=len(ACTIONS),
        batch_embeddings=rep.counters.get('batch_embeddings', 0), object_kinds=len(KINDS),
        skipped_unconstructible=rep.counters.get('skipped_unconstructible', 0),
        distinct_outcome_classes=len(outs), succeeding_outcome_classes=succ, exhaustive=True,
        explanation="BFS with deduplication on the full attribute snapshot of the whole store "
                    "(no abstraction: merged states have identical attribute content); states are "
                    "counted per first-action subtree; every transition is one real request, judged "
                    "by the attribute-store model on a raw-SQLite snapshot, the frame condition on "
                    "every other object and GetAttributes agreement; batch_embeddings = the same "
                    "action re-run on a clone of the same state inside [action, Create] (Continue) "
                    "and [Create, action] batches, required to answer and to leave objects 1 and 2 "
                    "exactly as the stand-alone request did (quick: from the root state; thorough: from every "
                    "state within one step of it)",
    ), assumptions=[
        "a call that addresses no existing instance (index out of range or negative, current value "
        "not present) must fail; the 2.0 reference form of DeleteAttribute removes all instances",
        "attribute values the library cannot construct (NotImplementedError in its factories) are "
        "skipped and counted",
    ])


def replay(doc):
    part = Part()
    w = build_store(doc['kind'])
    try:
        path = []
        acts = [tuple(a) for a in doc['path']]
        for i, a in enumerate(acts):
            if doc.get('embed') and i == len(acts) - 1:
                with w.clone() as w2:
                    step(w2, a, part, doc['kind'], path)
                part.violations[:] = []
                part._keys.clear()
                embed(w, a, part, doc['kind'], path, doc['embed'])
            else:
                step(w, a, part, doc['kind'], path)
            path.append(a)
        v = part.violations
        return bool(v), '\n'.join("%s: %s" % (k, t) for k, t, _ in v) or 'no violation'
    finally:
        w.close()
