"""C19 - the client reports exactly what the server answered.

Exhaustive enumeration at the client seam: every ProxyKmipClient operation (and KMIPProxy beneath
it) x argument menus x KMIP versions is run over an in-memory transport against (a) a real
session+engine and (b) a scripted responder replaying, for that operation, every legal response
shape derived from the real one (every failure reason x message absent/empty/ascii/long, other
statuses, wrong operation echo, 0 and 2 batch items, undecodable bytes) under every chunking /
truncation of the response stream. Oracle: computed from the response BYTES with the independent
TTLV parser - success => exactly the carried data; failure => KmipOperationFailure with exactly
(status, reason, message); undecodable / truncated => an exception, never data.
"""
import itertools
import struct

from mc import world as W
from mc.world import enums, CUM
from mc.ref import ttlv
from mc.report import Reporter, Part
from mc.par import pmap

from kmip.pie import client as pie_client
from kmip.pie import exceptions as pie_exc
from kmip.services.kmip_protocol import KMIPProtocol

E = enums
T = E.Tags
RR = E.ResultReason
RS = E.ResultStatus
W.use_rsa_pool()


class Transport(object):
    """In-memory socket: every complete request frame is answered by `responder(request bytes)`;
    recv() follows `chunker`."""

    def __init__(self, responder, chunker=None, cut=None):
        self.responder = responder
        self.chunker = chunker
        self.cut = cut                # deliver only this many bytes of each response, then EOF
        self.out = bytearray()
        self.inbuf = bytearray()
        self.requests = []
        self.recv_calls = 0

    def sendall(self, data):
        self.out += data
        while len(self.out) >= 8:
            n = int.from_bytes(self.out[4:8], 'big')
            if len(self.out) < 8 + n:
                break
            frame = bytes(self.out[:8 + n])
            del self.out[:8 + n]
            self.requests.append(frame)
            resp = self.responder(frame)
            if self.cut is not None:
                resp = resp[:self.cut]
            self.inbuf += resp

    send = sendall

    def recv(self, n):
        self.recv_calls += 1
        if not self.inbuf:
            return b''
        k = min(n, len(self.inbuf))
        if self.chunker:
            k = max(1, min(k, self.chunker(n, len(self.inbuf), self.recv_calls - 1)))
        out = bytes(self.inbuf[:k])
        del self.inbuf[:k]
        return out

    def close(self):
        pass

    def shutdown(self, how):
        pass


def make_client(version, transport):
    c = pie_client.ProxyKmipClient(kmip_version=W.KV[version])
    c._is_open = True
    c.proxy.socket = transport
    c.proxy.protocol = KMIPProtocol(transport)
    return c


# ---------------------------------------------------------------------------------------------
# operations: name -> (call(client, ids), expected(payload tree) -> comparable, normalise(return))
# ---------------------------------------------------------------------------------------------
def _tv(p, tag):
    c = ttlv.find(p, tag.value) if p is not None else None
    return c[2] if c else None


def _uids(p):
    return [c[2] for c in (p[2] if p else []) if c[0] == T.UNIQUE_IDENTIFIER.value]


def _key_bytes(p):
    for path, node in ttlv.walk(p):
        if node[0] == T.KEY_MATERIAL.value and node[1] == ttlv.BYTE_STRING:
            return node[2]
        if node[0] in (T.CERTIFICATE_VALUE.value, T.OPAQUE_DATA_VALUE.value) and node[1] == ttlv.BYTE_STRING:
            return node[2]
    return None


def _attr_names(p):
    from mc.ref import versions as V
    out = []
    for a in ttlv.find_all(p, T.ATTRIBUTE.value):
        out.append(ttlv.find(a, T.ATTRIBUTE_NAME.value)[2])
    for a in ttlv.find_all(p, T.ATTRIBUTES.value):          # KMIP 2.0
        for c in a[2]:
            out.append(V.TAG_TO_ATTRIBUTE.get(c[0], 'tag:%06x' % c[0]))
    return out


def _attr_list(p):
    from mc.ref import versions as V
    out = [c_[2] for c_ in p[2] if c_[0] == T.ATTRIBUTE_NAME.value]
    for c_ in p[2]:
        if c_[0] == T.ATTRIBUTE_REFERENCE.value and c_[1] == ttlv.ENUMERATION:   # KMIP 2.0
            out.append(V.TAG_TO_ATTRIBUTE.get(c_[2], 'tag:%06x' % c_[2]))
    return sorted(out)


CP = {'cryptographic_algorithm': E.CryptographicAlgorithm.AES, 'block_cipher_mode': E.BlockCipherMode.CBC,
      'padding_method': E.PaddingMethod.PKCS5}
SP = {'cryptographic_algorithm': E.CryptographicAlgorithm.RSA, 'hashing_algorithm': E.HashingAlgorithm.SHA_256,
      'padding_method': E.PaddingMethod.PKCS1v15}

OPS = {
    'create': (lambda c, i: c.create(E.CryptographicAlgorithm.AES, 128, name='n',
                                      cryptographic_usage_mask=[CUM.ENCRYPT]),
               lambda p: _tv(p, T.UNIQUE_IDENTIFIER), lambda r: r),
    'create_nomask': (lambda c, i: c.create(E.CryptographicAlgorithm.AES, 256),
                      lambda p: _tv(p, T.UNIQUE_IDENTIFIER), lambda r: r),
    'create_key_pair': (lambda c, i: c.create_key_pair(E.CryptographicAlgorithm.RSA, 1024,
                                                       public_usage_mask=[CUM.VERIFY],
                                                       private_usage_mask=[CUM.SIGN]),
                        lambda p: (_tv(p, T.PUBLIC_KEY_UNIQUE_IDENTIFIER), _tv(p, T.PRIVATE_KEY_UNIQUE_IDENTIFIER)),
                        lambda r: tuple(r)),
    'register': (lambda c, i: c.register(W.pie_secret()),
                 lambda p: _tv(p, T.UNIQUE_IDENTIFIER), lambda r: r),
    'register_key': (lambda c, i: c.register(W.pie_symmetric()),
                     lambda p: _tv(p, T.UNIQUE_IDENTIFIER), lambda r: r),
    'derive_key': (lambda c, i: c.derive_key(E.ObjectType.SYMMETRIC_KEY, [i['key']], E.DerivationMethod.HMAC,
                                             {'cryptographic_parameters': {'hashing_algorithm': E.HashingAlgorithm.SHA_256},
                                              'derivation_data': b'd'},
                                             cryptographic_length=128,
                                             cryptographic_algorithm=E.CryptographicAlgorithm.AES),
                   lambda p: _tv(p, T.UNIQUE_IDENTIFIER), lambda r: r),
    'locate': (lambda c, i: c.locate(), lambda p: _uids(p), lambda r: list(r)),
    'locate_paged': (lambda c, i: c.locate(maximum_items=1, offset_items=1), lambda p: _uids(p), lambda r: list(r)),
    'get': (lambda c, i: c.get(i['key']), lambda p: _key_bytes(p), lambda r: r.value),
    'get_secret': (lambda c, i: c.get(i['secret']), lambda p: _key_bytes(p), lambda r: r.value),
    'get_cert': (lambda c, i: c.get(i['cert']), lambda p: _key_bytes(p), lambda r: r.value),
    'get_missing': (lambda c, i: c.get('999'), lambda p: _key_bytes(p), lambda r: r.value),
    'get_attributes': (lambda c, i: c.get_attributes(i['key'], ['Name', 'State']),
                       lambda p: (_tv(p, T.UNIQUE_IDENTIFIER), _attr_names(p)),
                       lambda r: (r[0], [str(a.attribute_name) for a in r[1]])),
    'get_attribute_list': (lambda c, i: c.get_attribute_list(i['key']),
                           lambda p: _attr_list(p),
                           lambda r: sorted(r)),
    'activate': (lambda c, i: c.activate(i['secret']), lambda p: None, lambda r: r),
    'revoke': (lambda c, i: c.revoke(E.RevocationReasonCode.CESSATION_OF_OPERATION, i['key']),
               lambda p: None, lambda r: r),
    'destroy': (lambda c, i: c.destroy(i['secret']), lambda p: None, lambda r: r),
    'encrypt': (lambda c, i: c.encrypt(b'0123456789abcdef', i['key'], CP, b'\x00' * 16),
                lambda p: (_tv(p, T.DATA), _tv(p, T.IV_COUNTER_NONCE)), lambda r: tuple(r)[:2]),
    'encrypt_autoiv': (lambda c, i: c.encrypt(b'0123456789abcdef', i['key'], CP),
                       lambda p: (_tv(p, T.DATA), _tv(p, T.IV_COUNTER_NONCE)), lambda r: tuple(r)[:2]),
    'decrypt': (lambda c, i: c.decrypt(i['ciphertext'], i['key'], CP, b'\x00' * 16),
                lambda p: _tv(p, T.DATA), lambda r: r),
    'sign': (lambda c, i: c.sign(b'msg', i['private'], SP), lambda p: _tv(p, T.SIGNATURE_DATA), lambda r: r),
    'signature_verify': (lambda c, i: c.signature_verify(b'msg', b'\x00' * 128, i['public'], SP),
                         lambda p: _tv(p, T.VALIDITY_INDICATOR), lambda r: r.value),
    'mac': (lambda c, i: c.mac(b'msg', i['key'], E.CryptographicAlgorithm.HMAC_SHA256),
            lambda p: (_tv(p, T.UNIQUE_IDENTIFIER), _tv(p, T.MAC_DATA)), lambda r: tuple(r)),
    'delete_attribute': (lambda c, i: c.delete_attribute(i['key'], attribute_name='Name', attribute_index=0),
                         lambda p: _tv(p, T.UNIQUE_IDENTIFIER), lambda r: r[0]),
    'modify_attribute': (lambda c, i: c.modify_attribute(i['key'], attribute=W.attr(W.AT.NAME, 'zz', 0)),
                         lambda p: _tv(p, T.UNIQUE_IDENTIFIER), lambda r: r[0]),
}
OPS20 = {
    'set_attribute': (lambda c, i: c.set_attribute(i['secret'], attribute_name='Sensitive', attribute_value=True),
                      lambda p: _tv(p, T.UNIQUE_IDENTIFIER), lambda r: r),
}


def base_store():
    W.CLOCK.now = W.T0
    w = W.World()
    MASK = [W.attr(W.AT.CRYPTOGRAPHIC_USAGE_MASK, list(CUM))]
    ids = {}
    ids['key'] = w.do((1, 4), W.p_register(W.pie_symmetric(), MASK + W.common_attrs(names=['k', 'k2']))).uid()
    w.do((1, 4), W.p_activate(ids['key']))
    ids['secret'] = w.do((1, 4), W.p_register(W.pie_secret(), MASK)).uid()
    ids['cert'] = w.do((1, 4), W.p_register(W.pie_certificate())).uid()
    ids['private'] = w.do((1, 4), W.p_register(W.pie_private(), MASK)).uid()
    w.do((1, 4), W.p_activate(ids['private']))
    ids['public'] = w.do((1, 4), W.p_register(W.pie_public(), MASK)).uid()
    w.do((1, 4), W.p_activate(ids['public']))
    r = w.do((1, 4), W.p_encrypt(ids['key'], iv=b'\x00' * 16))
    ids['ciphertext'] = r.pfind(T.DATA)
    return w, ids


_BASE = None


def base():
    global _BASE
    if _BASE is None:
        _BASE = base_store()
    return _BASE


class Outcome(object):
    def __init__(self, kind, value=None):
        self.kind = kind            # 'return' | 'failure' | 'exception'
        self.value = value

    def __repr__(self):
        return "%s(%s)" % (self.kind, str(self.value)[:120])


def call(opname, version, transport, ids, client=None):
    table = dict(OPS, **OPS20)
    fn, expected, norm = table[opname]
    if client is None:
        c = make_client(version, transport)
    else:
        # a long-lived client switched to another version between operations
        c = client
        c.kmip_version = W.KV[version]
        c.proxy.socket = transport
        c.proxy.protocol = KMIPProtocol(transport)
    try:
        r = fn(c, ids)
    except pie_exc.KmipOperationFailure as e:
        return Outcome('failure', (getattr(e.status, 'value', e.status), getattr(e.reason, 'value', e.reason),
                                   e.message))
    except _ProxyFailure as e:
        return Outcome('failure', (e.status, e.reason, e.message))
    except W.exceptions.OperationFailure as e:
        # the generic request path (Set/Modify/DeleteAttribute) raises the core operation-failure error
        return Outcome('failure', (getattr(e.status, 'value', e.status), getattr(e.reason, 'value', e.reason),
                                   e.args[0] if e.args else None))
    except Exception as e:   # noqa
        return Outcome('exception', "%s: %s" % (type(e).__name__, str(e)[:100]))
    try:
        return Outcome('return', norm(r))
    except Exception as e:   # noqa
        return Outcome('return', 'unnormalisable %s: %r' % (type(e).__name__, r))


def expected_from_bytes(opname, data):
    """What the response bytes say, by the independent parser: ('return', data) | ('failure', triple)
    | ('invalid', why)."""
    table = dict(OPS, **OPS20)
    try:
        r = W.Resp(data)
    except Exception as e:   # noqa
        return ('invalid', 'not TTLV: %s' % e)
    if r.batch_count != len(r.items) or len(r.items) != 1:
        return ('invalid', '%d items' % len(r.items))
    it = r.items[0]
    if it.status == RS.SUCCESS.value:
        try:
            return ('return', table[opname][1](it.payload))
        except Exception as e:   # noqa
            return ('invalid', 'payload: %s' % e)
    return ('failure', (it.status, it.reason, it.message))


# ---------------------------------------------------------------------------------------------
# (a) against the real server
# ---------------------------------------------------------------------------------------------
def real_responder(w, log):
    def respond(frame):
        data = w.send_bytes(frame, user='alice')
        log.append((frame, data))
        return data
    return respond


def judge(opname, version, outcome, resp_bytes, part, ctx, what):
    exp = expected_from_bytes(opname, resp_bytes)
    label = what.split(':')[0]
    if label == 'wrong-operation-echo':
        exp = ('invalid', 'the response echoes another operation than the one requested')
    if label in ('two-items', 'zero-items', 'count-mismatch', 'success-no-payload'):
        # not a response a server can legally send to a single-item request: only "no success for a
        # failure" applies, and these are successes or empty
        part.counters.setdefault('_out', set()).add((opname, label, 'illegal', outcome.kind))
        return
    part.counters.setdefault('_out', set()).add((opname, what.split(':')[0], exp[0], outcome.kind))
    key = None
    if exp[0] == 'return':
        if outcome.kind != 'return' or outcome.value != exp[1]:
            key, txt = 'wrong-data', "the response carries %r, the client reports %r" % (exp[1], outcome)
    elif exp[0] == 'failure':
        st, reason, msg = exp[1]
        if outcome.kind == 'return':
            key, txt = 'success-for-failure', "the response is a failure %r, the client returned %r" % (exp[1], outcome.value)
        elif outcome.kind == 'exception':
            key, txt = 'failure-lost', "the response is a failure %r, the client raised %s" % (exp[1], outcome.value)
        elif tuple(outcome.value) != (st, reason, msg) and not (
                msg is None and tuple(outcome.value) == (st, reason, '')):
            key, txt = 'failure-triple', "the response is a failure %r, the client raised failure %r" % (
                exp[1], outcome.value)
    else:
        if outcome.kind == 'return':
            key, txt = 'data-from-invalid', "the response is invalid (%s) but the client returned %r" % (
                exp[1], outcome.value)
    if key:
        part.violation("%s|%s|%s" % (key, opname if key != 'failure-lost' else '*', what.split(':')[0]),
                       "%s under KMIP %d.%d, %s: %s" % (opname, version[0], version[1], what, txt), ctx)


def run_real(opname, version, part, client=None, history=None):
    w0, ids = base()
    w = w0.clone()
    try:
        W.CLOCK.now = W.T0 + 7
        log = []
        tr = Transport(real_responder(w, log))
        out = call(opname, version, tr, ids, client)
        part.count('exchanges')
        ctx = {'op': opname, 'version': list(version), 'peer': 'real'}
        if history is not None:
            ctx['switched_client'] = [list(v) for v in history]
        if not log:
            part.counters.setdefault('_out', set()).add((opname, 'no-request', out.kind))
            if out.kind != 'exception':
                part.violation("no-request|%s" % opname, "%s returned %r without talking to the server" % (
                    opname, out), ctx)
            return None
        frame, data = log[-1]
        # the request announces the version the client was told to speak
        try:
            hdr = ttlv.find(ttlv.parse(frame), T.REQUEST_HEADER.value)
            pv = ttlv.find(hdr, T.PROTOCOL_VERSION.value)
            announced = (ttlv.find(pv, T.PROTOCOL_VERSION_MAJOR.value)[2],
                         ttlv.find(pv, T.PROTOCOL_VERSION_MINOR.value)[2])
        except Exception:   # noqa
            announced = None
        if announced != tuple(version):
            part.violation("request-version|%s" % ('switched' if client is not None else opname),
                           "%s: the client was set to KMIP %d.%d but its request announces %s%s" % (
                               opname, version[0], version[1], announced,
                               ' (same client object used before under %s)' % (history,) if history else ''),
                           ctx)
        # every request the client emits is decodable by the server
        r = W.Resp(data)
        if r.items and r.items[0].reason == RR.INVALID_MESSAGE.value and r.items[0].operation is None:
            part.violation("request-undecodable|%s" % opname,
                           "the request %s emits under KMIP %d.%d is rejected by the server's decoder" % (
                               opname, version[0], version[1]), ctx)
        judge(opname, version, out, data, part, ctx, 'real server')
        return data
    finally:
        w.close()


# ---------------------------------------------------------------------------------------------
# (b) scripted responses derived from the real one
# ---------------------------------------------------------------------------------------------
MESSAGES = [None, '', 'short reason', 'x' * 300, 'non-ascii é']


def derived_responses(data):
    """Yield (label, bytes)."""
    tree = ttlv.parse(data)
    hdr = tree[2][0]
    item = tree[2][1]
    op = ttlv.find(item, T.OPERATION.value)
    bid = ttlv.find(item, T.UNIQUE_BATCH_ITEM_ID.value)

    def msg(items, count=None):
        h = (hdr[0], hdr[1], [c if c[0] != T.BATCH_COUNT.value else (c[0], c[1], len(items) if count is None else count)
                              for c in hdr[2]])
        return ttlv.encode((tree[0], tree[1], [h] + items))

    def failure(status, reason, message, with_op=True):
        kids = []
        if with_op and op:
            kids.append(op)
        if bid:
            kids.append(bid)
        kids.append((T.RESULT_STATUS.value, ttlv.ENUMERATION, status))
        if reason is not None:
            kids.append((T.RESULT_REASON.value, ttlv.ENUMERATION, reason))
        if message is not None:
            kids.append((T.RESULT_MESSAGE.value, ttlv.TEXT_STRING, message))
        return (item[0], item[1], kids)

    for reason in RR:
        for m in (MESSAGES if reason in (RR.ITEM_NOT_FOUND, RR.GENERAL_FAILURE, RR.PERMISSION_DENIED)
                  else MESSAGES[:3]):
            yield 'failure:%s:%s' % (reason.name, 'nomsg' if m is None else len(m)), \
                msg([failure(RS.OPERATION_FAILED.value, reason.value, m)])
    for st in (RS.OPERATION_PENDING, RS.OPERATION_UNDONE):
        yield 'status:%s' % st.name, msg([failure(st.value, RR.GENERAL_FAILURE.value, 'm')])
        yield 'status:%s:noreason' % st.name, msg([failure(st.value, None, None)])
    yield 'failure-no-operation', msg([failure(RS.OPERATION_FAILED.value, RR.INVALID_MESSAGE.value, 'parse', False)])
    # wrong operation echo on a success
    if op:
        other = 10 if op[2] != 10 else 12
        kids = [(c[0], c[1], other) if c[0] == T.OPERATION.value else c for c in item[2]]
        yield 'wrong-operation-echo', msg([(item[0], item[1], kids)])
    yield 'zero-items', msg([])
    yield 'two-items', msg([item, item])
    yield 'count-mismatch', msg([item], 2)
    # a success whose repeated payload fields come in the opposite order: lists are ordered data
    # (a server's order of preference, newest-first results, ...), the client must report them as sent
    pl = ttlv.find(item, T.RESPONSE_PAYLOAD.value)
    if pl is not None and pl[1] == ttlv.STRUCTURE:
        tags = [c[0] for c in pl[2]]
        rep = [t for t in set(tags) if tags.count(t) >= 2]
        if rep:
            rev = {t: [c for c in pl[2] if c[0] == t][::-1] for t in rep}
            new_kids = []
            for c in pl[2]:
                new_kids.append(rev[c[0]].pop(0) if c[0] in rev else c)
            if new_kids != pl[2]:
                npl = (pl[0], pl[1], new_kids)
                yield 'success-reversed-lists', msg([(item[0], item[1],
                                                      [npl if c is pl else c for c in item[2]])])
    # success without payload / payload of another operation
    kids = [c for c in item[2] if c[0] != T.RESPONSE_PAYLOAD.value]
    yield 'success-no-payload', msg([(item[0], item[1], kids)])
    # undecodable bytes
    for node in ttlv.index(data):
        # a structure (payload, key block, attribute, ...) whose contents are not items, all lengths
        # around it consistent: nothing can decode it
        if node['type'] == ttlv.STRUCTURE and node['length'] >= 8 and len(node['path']) >= 3:
            yield 'garbage-content:%06x' % node['tag'], \
                data[:node['value_start']] + b'\xff' * node['length'] + data[node['value_end']:]
    yield 'garbage', data[:8] + b'\xff' * (len(data) - 8)
    yield 'bad-inner-length', data[:20] + b'\x7f' + data[21:]
    yield 'request-tag', b'\x42\x00\x78' + data[3:]
    yield 'empty-body', data[:4] + struct.pack('!I', 0)


def run_scripted(opname, version, real_data, part):
    w0, ids = base()
    seen = set()
    for label, resp in derived_responses(real_data):
        if resp in seen:
            continue
        seen.add(resp)
        tr = Transport(lambda frame, resp=resp: resp)
        out = call(opname, version, tr, ids)
        part.count('exchanges')
        judge(opname, version, out, resp, part,
              {'op': opname, 'version': list(version), 'peer': 'scripted', 'response': label}, label)
    # responses that cannot be fully decoded: a primitive item declaring more value bytes than its
    # enclosing structure holds (every primitive node x {+8, +16, 2^31}); all structure lengths and
    # the framing stay consistent, so only the decoder can notice
    for node in ttlv.index(real_data):
        if node['type'] == ttlv.STRUCTURE:
            continue
        for newlen in (node['length'] + 8, node['length'] + 16, 2 ** 31):
            s_ = node['start']
            m = real_data[:s_ + 4] + struct.pack('!I', newlen) + real_data[s_ + 8:]
            why = ttlv.short_primitive(real_data, m)
            if not why or m in seen:
                continue
            seen.add(m)
            tr = Transport(lambda frame, m=m: m)
            out = call(opname, version, tr, ids)
            part.count('exchanges')
            part.count('short_primitive_responses')
            part.counters.setdefault('_out', set()).add((opname, 'short-primitive', out.kind))
            if out.kind != 'exception':
                part.violation("undecodable-response-accepted|%s|%06x" % (opname, node['tag']),
                               "%s under KMIP %d.%d: in the response %s, yet the client reported %r" % (
                                   opname, version[0], version[1], why, out),
                               {'op': opname, 'version': list(version), 'peer': 'scripted',
                                'short_primitive': [node['start'], newlen]})
    # chunkings and truncations of the real response
    n = len(real_data)
    ref = None
    for k in range(0, 3):
        for positions in itertools.combinations(range(0, 4), k):
            for sizes in itertools.product((1, 7, 8, n - 9), repeat=k):
                dev = dict(zip(positions, sizes))
                tr = Transport(lambda frame: real_data, chunker=lambda req, av, i, dev=dev: dev.get(i, req))
                out = call(opname, version, tr, ids)
                part.count('exchanges')
                judge(opname, version, out, real_data, part,
                      {'op': opname, 'version': list(version), 'chunks': {str(a): b for a, b in dev.items()}},
                      'chunked')
    for cut in sorted(set([0, 1, 7, 8, 9, 16, n // 2, n - 8, n - 1])):
        if 0 <= cut < n:
            tr = Transport(lambda frame: real_data, cut=cut)
            out = call(opname, version, tr, ids)
            part.count('exchanges')
            part.counters.setdefault('_out', set()).add((opname, 'truncated', out.kind))
            if out.kind != 'exception':
                part.violation("truncated-response-accepted|%s" % opname,
                               "%s: the response stream ended after %d of %d bytes but the client reported %r"
                               % (opname, cut, n, out), {'op': opname, 'version': list(version), 'cut': cut})


SWITCH_ORDER = [(1, 2), (2, 0), (1, 4), (1, 0), (2, 0), (1, 1), (1, 3), (1, 2)]


def run_switching(part):
    """One long-lived client per operation, switched through SWITCH_ORDER: what it emits and reports
    under a version may not depend on the versions it spoke before."""
    table = dict(OPS, **OPS20)
    for opname in table:
        client = make_client(SWITCH_ORDER[0], Transport(lambda f: b''))
        hist = []
        for version in SWITCH_ORDER:
            if opname in OPS20 and version != (2, 0):
                hist.append(version)
                client.kmip_version = W.KV[version]
                continue
            run_real(opname, version, part, client=client, history=list(hist))
            part.count('switched_exchanges')
            hist.append(version)
    part.sample({'switching_order': [list(v) for v in SWITCH_ORDER]})


# argument variants with NON-default values (masks outside Encrypt/Decrypt, policy names, names on both
# halves of a pair, locate filters): same expectations as their base operation
OPS.update({
    'create_mac': (lambda c, i: c.create(E.CryptographicAlgorithm.AES, 128, operation_policy_name='default',
                                          cryptographic_usage_mask=[CUM.MAC_GENERATE, CUM.MAC_VERIFY]),
                   OPS['create'][1], OPS['create'][2]),
    'create_wrap': (lambda c, i: c.create(E.CryptographicAlgorithm.AES, 192, name='w',
                                           cryptographic_usage_mask=[CUM.WRAP_KEY, CUM.UNWRAP_KEY]),
                    OPS['create'][1], OPS['create'][2]),
    'create_key_pair_named': (lambda c, i: c.create_key_pair(
        E.CryptographicAlgorithm.RSA, 1024, operation_policy_name='default', public_name='pub',
        public_usage_mask=[CUM.VERIFY, CUM.ENCRYPT], private_name='priv',
        private_usage_mask=[CUM.SIGN, CUM.DECRYPT]), OPS['create_key_pair'][1], OPS['create_key_pair'][2]),
    'locate_named': (lambda c, i: c.locate(attributes=[W.attr(W.AT.NAME, 'k')]),
                     OPS['locate'][1], OPS['locate'][2]),
    'locate_max': (lambda c, i: c.locate(maximum_items=2), OPS['locate'][1], OPS['locate'][2]),
})


# operations that only the lower-level client (KMIPProxy) offers: they RETURN a result object carrying
# the status instead of raising; the adapter turns a non-success result into the same failure outcome
def _raw(x):
    while hasattr(x, 'value'):
        x = x.value
    return x


class _ProxyFailure(Exception):
    def __init__(self, res):
        Exception.__init__(self, 'proxy failure')
        self.status = _raw(res.result_status)
        self.reason = _raw(res.result_reason)
        self.message = _raw(res.result_message)


def _px(res, getter):
    if _raw(res.result_status) != RS.SUCCESS.value:
        raise _ProxyFailure(res)
    return getter(res)


def _pv_list(p):
    return [(_tv(c, T.PROTOCOL_VERSION_MAJOR), _tv(c, T.PROTOCOL_VERSION_MINOR))
            for c in (p[2] if p else []) if c[0] == T.PROTOCOL_VERSION.value]


def _enum_list(p, tag):
    return [c[2] for c in (p[2] if p else []) if c[0] == tag.value]


OPS.update({
    'proxy_discover_versions': (
        lambda c, i: _px(c.proxy.discover_versions(), lambda r: [(v.major, v.minor) for v in r.protocol_versions]),
        _pv_list, lambda r: list(r)),
    'proxy_discover_some': (
        lambda c, i: _px(c.proxy.discover_versions(protocol_versions=[
            W.contents.ProtocolVersion(1, 1), W.contents.ProtocolVersion(2, 0), W.contents.ProtocolVersion(1, 3)]),
            lambda r: [(v.major, v.minor) for v in r.protocol_versions]),
        _pv_list, lambda r: list(r)),
    'proxy_query': (
        lambda c, i: _px(c.proxy.query(query_functions=[
            W.payloads.QueryRequestPayload and E.QueryFunction.QUERY_OPERATIONS, E.QueryFunction.QUERY_OBJECTS,
            E.QueryFunction.QUERY_SERVER_INFORMATION]),
            lambda r: ([getattr(o, 'value', o) for o in (r.operations or [])],
                       [getattr(o, 'value', o) for o in (r.object_types or [])],
                       getattr(r.vendor_identification, 'value', r.vendor_identification))),
        lambda p: (_enum_list(p, T.OPERATION), _enum_list(p, T.OBJECT_TYPE), _tv(p, T.VENDOR_IDENTIFICATION)),
        lambda r: (list(r[0]), list(r[1]), r[2])),
})


def _dict_result(d, keys):
    """rekey/check return a dict carrying the status next to the data."""
    if _raw(d.get('result_status')) != RS.SUCCESS.value:
        class _R(object):
            result_status, result_reason, result_message = (d.get('result_status'), d.get('result_reason'),
                                                            d.get('result_message'))
        raise _ProxyFailure(_R)
    return tuple(_raw(d.get(k)) for k in keys)


# operations the PyKMIP server does not implement: its real answer is a failure, which the client has
# to report as such (and every derived failure / invalid response likewise)
OPS.update({
    'proxy_rekey': (lambda c, i: _dict_result(c.proxy.rekey(uuid=i['key'], offset=0), ['unique_identifier']),
                    lambda p: (_tv(p, T.UNIQUE_IDENTIFIER),), lambda r: tuple(r)),
    'proxy_check': (lambda c, i: _dict_result(c.proxy.check(i['key'], 5, [CUM.ENCRYPT], 10),
                                              ['unique_identifier', 'usage_limits_count', 'lease_time']),
                    lambda p: (_tv(p, T.UNIQUE_IDENTIFIER), _tv(p, T.USAGE_LIMITS_COUNT), _tv(p, T.LEASE_TIME)),
                    lambda r: tuple(r)),
    'proxy_rekey_key_pair': (
        lambda c, i: _px(c.proxy.rekey_key_pair(
            private_key_uuid=W.cattrs.PrivateKeyUniqueIdentifier(i['key'])),
            lambda r: (_raw(r.private_key_uuid), _raw(r.public_key_uuid))),
        lambda p: (_tv(p, T.PRIVATE_KEY_UNIQUE_IDENTIFIER), _tv(p, T.PUBLIC_KEY_UNIQUE_IDENTIFIER)),
        lambda r: tuple(r)),
})


def run_sequences(part):
    """One long-lived client runs the whole operation table (forward, then backward); the server
    state is reset before every call, only the CLIENT object persists. Every request it emits and
    every outcome it reports must equal those of a fresh client making the same call: what a call
    sends may not depend on the calls made before."""
    table = dict(OPS, **OPS20)
    w0, ids = base()
    for version in ((1, 2), (1, 4), (2, 0)):
        names = [n for n in table if not (n in OPS20 and version != (2, 0))]
        used = make_client(version, Transport(lambda f: b''))
        done = []
        for opname in names + list(reversed(names)):
            frames, outs = [], []
            for client in (used, None):
                w = w0.clone()
                try:
                    W.CLOCK.now = W.T0 + 7
                    W.ENTROPY.constant = True
                    log = []
                    tr = Transport(real_responder(w, log))
                    outs.append(call(opname, version, tr, ids, client))
                    frames.append([f for f, _ in log])
                finally:
                    w.close()
            part.count('exchanges')
            part.count('sequence_calls')
            part.counters.setdefault('_out', set()).add((opname, 'sequence', outs[0].kind))
            ctx = {'op': opname, 'version': list(version), 'sequence_before': list(done)[-8:], 'sequence': True}
            if frames[0] != frames[1]:
                part.violation("request-depends-on-history|%s" % opname,
                               "%s under KMIP %d.%d: after %d earlier calls on the same client the request is "
                               "%s..., a fresh client sends %s..." % (
                                   opname, version[0], version[1], len(done),
                                   (frames[0][-1].hex() if frames[0] else 'nothing')[:90],
                                   (frames[1][-1].hex() if frames[1] else 'nothing')[:90]), ctx)
            elif (outs[0].kind, repr(outs[0].value)) != (outs[1].kind, repr(outs[1].value)):
                part.violation("outcome-depends-on-history|%s" % opname,
                               "%s under KMIP %d.%d: used client reports %r, fresh client %r" % (
                                   opname, version[0], version[1], outs[0], outs[1]), ctx)
            done.append(opname)
    part.sample({'sequence_versions': [[1, 2], [1, 4], [2, 0]], 'operations': len(table)})


def _worker(task):
    if task == 'sequences':
        part = Part()
        run_sequences(part)
        out = part.as_dict()
        out['out'] = sorted(part.counters.pop('_out', set()), key=repr)
        return out
    if task == 'switching':
        part = Part()
        run_switching(part)
        out = part.as_dict()
        out['out'] = sorted(part.counters.pop('_out', set()), key=repr)
        return out
    opname, versions, scripted = task
    part = Part()
    for version in versions:
        if opname in OPS20 and version != (2, 0):
            continue
        data = run_real(opname, version, part)
        if data is not None and scripted:
            run_scripted(opname, version, data, part)
    part.sample({'operation': opname, 'versions': [list(v) for v in versions]})
    out = part.as_dict()
    out['out'] = sorted(part.counters.pop('_out', set()), key=repr)
    return out


def run(tier, seed):
    rep = Reporter('C19', 'fault_enumeration', tier, seed)
    names = list(OPS) + list(OPS20)
    vq = [(1, 2), (2, 0)]
    tasks = []
    for n in names:
        tasks.append((n, W.VERSIONS, False))                       # (a) all versions
        tasks.append((n, W.VERSIONS, True))   # (b) scripted: every supported version
    tasks.append('switching')
    tasks.append('sequences')
    outs = set()
    for part in pmap(_worker, tasks):
        outs.update(repr(o) for o in part.pop('out', []))
        rep.merge(part)
    n = rep.counters.get('exchanges', 0)
    if n < 5000 or len(outs) < 150:
        rep.harness_error("vacuous: %d exchanges, %d outcome classes" % (n, len(outs)))
    return rep.finish(dict(
        evaluations=n, distinct_nontrivial=len(outs),
        rule="a case is one client call over the in-memory transport: every ProxyKmipClient operation x "
             "6 versions against the real session+engine, and for each (operation, version) every "
             "response derived from the real one - every result reason x message absent / empty / "
             "ascii / long / non-ascii, pending and undone statuses, failure without operation, wrong "
             "operation echo, 0 and 2 batch items, count mismatch, success without payload, four kinds "
             "of undecodable bytes - plus 0..2 short-read deviations and 9 truncation points of the "
             "response stream. distinct_nontrivial = distinct (operation, response class, expected "
             "kind, client outcome kind) tuples",
        operations=len(names), exhaustive=True,
    ), assumptions=[
        "the expected outcome is computed from the response bytes with the independent TTLV parser",
        "Result Message is optional on failure (then the failure carries message None); Result Reason "
        "is mandatory on failure",
        "ssl and socket set-up (open()) are outside the sandbox; the transport is substituted below "
        "KMIPProtocol",
    ])


def replay(doc):
    part = Part()
    v = tuple(doc['version'])
    if doc.get('sequence'):
        run_sequences(part)
        vio = [x for x in part.violations if x[2].get('op') == doc['op']]
        return bool(vio), '\n'.join("%s: %s" % (k, t) for k, t, _ in vio[:20]) or 'no violation'
    if doc.get('switched_client') is not None:
        run_switching(part)
        vio = [x for x in part.violations if x[2].get('op') == doc['op']]
        return bool(vio), '\n'.join("%s: %s" % (k, t) for k, t, _ in vio[:20]) or 'no violation'
    data = run_real(doc['op'], v, part)
    if doc.get('peer') != 'real' and data is not None:
        run_scripted(doc['op'], v, data, part)
    vio = part.violations
    return bool(vio), '\n'.join("%s: %s" % (k, t) for k, t, _ in vio[:20]) or 'no violation'
