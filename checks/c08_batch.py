"""C08 - batch results are complete and failed items leave no trace.

Exhaustive enumeration of batches (all item sequences up to the length bound over an item
alphabet, x deviation-bounded header variations x initial stores) through the real
session+engine. Oracles: the batch model (prefix, order, echo, stop/continue) and a TWIN
differential: the final raw database must equal that of a twin engine to which only the
successfully REPORTED items were applied, one request each (placeholder substituted), and every
reported item's result must equal the twin's.
"""
import itertools

from mc import world as W
from mc.world import enums, CUM, AT, OP
from mc.report import Reporter, Part
from mc.par import pmap

E = enums
BEO = E.BatchErrorContinuationOption
RR = E.ResultReason
MASKS = [CUM.ENCRYPT, CUM.DECRYPT, CUM.MAC_GENERATE]

# name -> (builder(uid_or_None) -> (op, payload), uses placeholder?, creates?)
ITEMS = {
    'create': (lambda u: W.p_create(W.sym_attrs(masks=MASKS)), False, True),
    'register_secret': (lambda u: W.p_register(W.pie_secret(), W.common_attrs(names=['s'])),
                        False, True),
    'get_ph': (lambda u: W.p_get(u), True, False),
    'get_attributes_ph': (lambda u: W.p_get_attributes(u, ['State', 'Name']), True, False),
    'destroy_ph': (lambda u: W.p_destroy(u), True, False),
    'modify_ph': (lambda u: W.p_modify_attribute_1x(u, AT.NAME, 'renamed', 0), True, False),
    'activate_1': (lambda u: W.p_activate('1'), False, False),
    'revoke_1': (lambda u: W.p_revoke('1'), False, False),
    'destroy_1': (lambda u: W.p_destroy('1'), False, False),
    'modify_1': (lambda u: W.p_modify_attribute_1x('1', AT.NAME, 'renamed', 0), False, False),
    'get_missing': (lambda u: W.p_get('999'), False, False),
    'get_denied': (lambda u: W.p_get('2'), False, False),
    'modify_state_1': (lambda u: W.p_modify_attribute_1x('1', AT.STATE, E.State.ACTIVE), False, False),
    'register_conflict': (lambda u: W.p_register(
        W.pie_symmetric(), [W.attr(AT.CRYPTOGRAPHIC_ALGORITHM, E.CryptographicAlgorithm.RSA)]),
        False, True),
    'register_dup_names': (lambda u: W.p_register(
        W.pie_secret(), [W.attr(AT.NAME, 'd', 0), W.attr(AT.NAME, 'd', 1)]), False, True),
    'create_bad_alg': (lambda u: W.p_create(W.sym_attrs(alg=E.CryptographicAlgorithm.RSA,
                                                        masks=MASKS)), False, True),
    'mac_opaque': (lambda u: W.p_mac('3'), False, False),
    'locate': (lambda u: W.p_locate(), False, False),
    # ---- the ID placeholder family: every operation that SETS the placeholder ...
    'create_named': (lambda u: W.p_create(W.sym_attrs(masks=MASKS, names=['n'])), False, True),
    'create_key_pair': (lambda u: W.p_create_key_pair(**W.rsa_pair_attrs(
        pub_masks=(CUM.VERIFY,), priv_masks=(CUM.SIGN,))), False, True),
    'register_sym': (lambda u: W.p_register(W.pie_symmetric(), [
        W.attr(AT.CRYPTOGRAPHIC_USAGE_MASK, MASKS), W.attr(AT.NAME, 'n', 0)]), False, True),
    'derive_key': (lambda u: W.p_derive_key(['4'], attrs=W.sym_attrs(masks=MASKS, names=['n'])),
                   False, True),
    # ... and every operation that READS it when the request names no object
    'get_attribute_list_ph': (lambda u: W.p_get_attribute_list(u), True, False),
    'activate_ph': (lambda u: W.p_activate(u), True, False),
    'revoke_ph': (lambda u: W.p_revoke(u), True, False),
    'delete_attribute_ph': (lambda u: W.p_delete_attribute_1x(u, 'Name', 0), True, False),
    'encrypt_ph': (lambda u: W.p_encrypt(u), True, False),
    'decrypt_ph': (lambda u: W.p_decrypt(u), True, False),
    'mac_ph': (lambda u: W.p_mac(u), True, False),
    'sign_ph': (lambda u: W.p_sign(u), True, False),
    'signature_verify_ph': (lambda u: W.p_signature_verify(u), True, False),
    # KMIP 2.0 forms
    'set_attribute_ph': (lambda u: W.p_set_attribute(u, AT.NAME, 'set'), True, False),
    'modify_20_ph': (lambda u: W.p_modify_attribute_20(u, AT.NAME, 'renamed', 'n'), True, False),
    'delete_20_ph': (lambda u: W.p_delete_attribute_20(u, AT.NAME, 'n'), True, False),
}
# ---- the wide family: attribute operations and multi-step creations aimed at object 5 (two names,
# two groups, two application-specific entries). Most of them SUCCEED on a correct server; they are
# here so that an item which some change makes fail half-way is followed by an item that commits.
APPI = lambda d: {"application_namespace": 'ns', "application_data": d}      # noqa
WIDE_1X = {
    'w_mod_name_dup': lambda u: W.p_modify_attribute_1x('5', AT.NAME, 'w1', 0),
    'w_mod_name_new1': lambda u: W.p_modify_attribute_1x('5', AT.NAME, 'fresh', 1),
    'w_mod_name_noidx': lambda u: W.p_modify_attribute_1x('5', AT.NAME, 'fresh2'),
    'w_mod_name_oob': lambda u: W.p_modify_attribute_1x('5', AT.NAME, 'fresh', 5),
    'w_del_name0': lambda u: W.p_delete_attribute_1x('5', 'Name', 0),
    'w_del_name1': lambda u: W.p_delete_attribute_1x('5', 'Name', 1),
    'w_del_name_oob': lambda u: W.p_delete_attribute_1x('5', 'Name', 5),
    'w_mod_group_dup': lambda u: W.p_modify_attribute_1x('5', AT.OBJECT_GROUP, 'g1', 0),
    'w_mod_group_new': lambda u: W.p_modify_attribute_1x('5', AT.OBJECT_GROUP, 'gx', 1),
    'w_del_group1': lambda u: W.p_delete_attribute_1x('5', 'Object Group', 1),
    'w_mod_app_new': lambda u: W.p_modify_attribute_1x(
        '5', AT.APPLICATION_SPECIFIC_INFORMATION, APPI('dx'), 0),
    'w_mod_app_dup': lambda u: W.p_modify_attribute_1x(
        '5', AT.APPLICATION_SPECIFIC_INFORMATION, APPI('d0'), 1),
    'w_del_app0': lambda u: W.p_delete_attribute_1x('5', 'Application Specific Information', 0),
    'w_mod_sensitive': lambda u: W.p_modify_attribute_1x('5', AT.SENSITIVE, True),
    'w_mod_mask': lambda u: W.p_modify_attribute_1x('5', AT.CRYPTOGRAPHIC_USAGE_MASK, [CUM.SIGN]),
    'w_mod_policy': lambda u: W.p_modify_attribute_1x('5', AT.OPERATION_POLICY_NAME, 'public'),
    'w_activate5': lambda u: W.p_activate('5'),
    'w_revoke5_compromise': lambda u: W.p_revoke('5', E.RevocationReasonCode.KEY_COMPROMISE),
    'w_destroy5': lambda u: W.p_destroy('5'),
    'w_register_rich': lambda u: W.p_register(W.pie_secret(), W.common_attrs(
        names=['r0', 'r1'], groups=['g0'], appinfo=[('ns', 'd0')])),
    'w_register_rich_then_bad': lambda u: W.p_register(W.pie_symmetric(), W.common_attrs(
        names=['r0', 'r1'], groups=['g0'], appinfo=[('ns', 'd0')]) + [
            W.attr(AT.CRYPTOGRAPHIC_LENGTH, 64)]),
    'w_register_dup_group': lambda u: W.p_register(W.pie_secret(), W.common_attrs(
        names=['r0'], groups=['g0', 'g0'])),
    'w_create_rich': lambda u: W.p_create(W.sym_attrs(masks=MASKS, names=['c0', 'c1'], groups=['g0'])),
    'w_create_rich_then_bad': lambda u: W.p_create(W.sym_attrs(masks=MASKS, names=['c0', 'c0'])),
    'w_pair_bad_private': lambda u: W.p_create_key_pair(**W.rsa_pair_attrs(
        pub_masks=(CUM.VERIFY,), priv_masks=(CUM.VERIFY, CUM.ENCRYPT, CUM.MAC_GENERATE))),
    'w_derive_bad_length': lambda u: W.p_derive_key(['4'], attrs=W.sym_attrs(length=100, masks=MASKS)),
    'w_derive_rich': lambda u: W.p_derive_key(['4'], attrs=W.sym_attrs(masks=MASKS, names=['d0', 'd1'],
                                                                       groups=['g0'])),
}
WIDE_20 = {
    'w_set_sensitive': lambda u: W.p_set_attribute('5', AT.SENSITIVE, True),
    'w_set_name': lambda u: W.p_set_attribute('5', AT.NAME, 'fresh'),
    'w_set_mask': lambda u: W.p_set_attribute('5', AT.CRYPTOGRAPHIC_USAGE_MASK, [CUM.SIGN]),
    'w_mod20_name_dup': lambda u: W.p_modify_attribute_20('5', AT.NAME, 'w1', 'w0'),
    'w_mod20_name_new': lambda u: W.p_modify_attribute_20('5', AT.NAME, 'fresh', 'w1'),
    'w_mod20_name_absent': lambda u: W.p_modify_attribute_20('5', AT.NAME, 'fresh', 'nosuch'),
    'w_mod20_name_nocur': lambda u: W.p_modify_attribute_20('5', AT.NAME, 'fresh'),
    'w_mod20_group_dup': lambda u: W.p_modify_attribute_20('5', AT.OBJECT_GROUP, 'g1', 'g0'),
    'w_mod20_app_new': lambda u: W.p_modify_attribute_20(
        '5', AT.APPLICATION_SPECIFIC_INFORMATION, APPI('dx'), APPI('d0')),
    'w_mod20_sensitive': lambda u: W.p_modify_attribute_20('5', AT.SENSITIVE, True, False),
    'w_del20_name_cur': lambda u: W.p_delete_attribute_20('5', AT.NAME, 'w0'),
    'w_del20_name_absent': lambda u: W.p_delete_attribute_20('5', AT.NAME, 'nosuch'),
    'w_del20_group_ref': lambda u: W.p_delete_attribute_20('5', AT.OBJECT_GROUP),
    'w_del20_app_cur': lambda u: W.p_delete_attribute_20(
        '5', AT.APPLICATION_SPECIFIC_INFORMATION, APPI('d1')),
    'w_del20_sensitive_ref': lambda u: W.p_delete_attribute_20('5', AT.SENSITIVE),
    'w_activate5': WIDE_1X['w_activate5'], 'w_destroy5': WIDE_1X['w_destroy5'],
    'w_register_rich': WIDE_1X['w_register_rich'],
    'w_register_dup_group': WIDE_1X['w_register_dup_group'],
    'w_create_rich_then_bad': WIDE_1X['w_create_rich_then_bad'],
}
# ---- the read family: operations that must not change anything, each followed by a committing item
# (a reader that scribbles on the loaded object is harmless alone - nothing commits - and persists
# in a batch) and repeated (the second answer must equal the first)
READS = {
    'r_get5': lambda u: W.p_get('5'),
    'r_get5_wrapped': lambda u: W.p_get('5', wrapping_spec=W.wrapping_spec('6')),
    'r_get1_wrapped': lambda u: W.p_get('1', wrapping_spec=W.wrapping_spec('6')),
    'r_get_attributes5': lambda u: W.p_get_attributes('5'),
    'r_get_attribute_list5': lambda u: W.p_get_attribute_list('5'),
    'r_locate_name': lambda u: W.p_locate([W.attr(AT.NAME, 'w0')]),
    'r_locate_group': lambda u: W.p_locate([W.attr(AT.OBJECT_GROUP, 'g1')]),
    'r_encrypt6': lambda u: W.p_encrypt('6', iv=b'\x00' * 16),
    'r_decrypt1': lambda u: W.p_decrypt('1'),
    'r_mac1': lambda u: W.p_mac('1'),
    'r_derive4': lambda u: W.p_derive_key(['4'], attrs=W.sym_attrs(masks=MASKS)),
    'r_query': lambda u: W.p_query(),
    'r_discover': lambda u: W.p_discover(),
}
for _k, _f in READS.items():
    ITEMS[_k] = (_f, False, _k == 'r_derive4')


def read_family():
    out = []
    for version in ((1, 2), (1, 4), (2, 0)):
        for r in READS:
            out.append(((r, 'create'), version))
            out.append(((r, 'activate_1' if version == (2, 0) else 'modify_1'), version))
            out.append(((r, r, 'create'), version))
            for w_ in ('w_activate5', 'w_destroy5', 'w_register_rich'):
                out.append(((r, w_, r), version))
    return out


for _k, _f in list(WIDE_1X.items()) + list(WIDE_20.items()):
    ITEMS[_k] = (_f, False, _k.startswith(('w_register', 'w_create', 'w_pair', 'w_derive')))


def wide_family(tier):
    """(item names, version): every wide item followed by a committing item under Continue, preceded
    by one, and every ordered pair of wide items followed by a committing item under Continue."""
    out = []
    for version, wide in (((1, 4), WIDE_1X), ((2, 0), WIDE_20)):
        ws = list(wide)
        for x in ws:
            out.append(((x, 'create'), version))
            out.append(((x, 'modify_1'), version) if version != (2, 0) else ((x, 'activate_1'), version))
            out.append((('create', x), version))
            for y in ws:
                if y != x:
                    out.append(((x, y, 'create'), version))
    return out


# operations that do NOT create anything but that the KMIP specification lets set the ID placeholder
# (Locate with exactly one match) or that merely name an object: followed by every reader
NAMERS = {
    'locate_one': lambda u: W.p_locate([W.attr(AT.NAME, 'one')]),
    'locate_w0': lambda u: W.p_locate([W.attr(AT.NAME, 'w0')]),
    'locate_none': lambda u: W.p_locate([W.attr(AT.NAME, 'no-such-name')]),
    'locate_all': lambda u: W.p_locate(),
    'get_1': lambda u: W.p_get('1'),
    'get_attributes_5': lambda u: W.p_get_attributes('5'),
}
for _k, _f in NAMERS.items():
    ITEMS[_k] = (_f, False, False)


SETTERS = ['create_named', 'create_key_pair', 'register_sym', 'derive_key']
READERS_1X = ['get_ph', 'get_attributes_ph', 'get_attribute_list_ph', 'activate_ph', 'revoke_ph',
              'destroy_ph', 'modify_ph', 'delete_attribute_ph', 'encrypt_ph', 'decrypt_ph', 'mac_ph',
              'sign_ph', 'signature_verify_ph']
READERS_20 = ['get_ph', 'get_attributes_ph', 'get_attribute_list_ph', 'activate_ph', 'revoke_ph',
              'destroy_ph', 'set_attribute_ph', 'modify_20_ph', 'delete_20_ph', 'encrypt_ph', 'mac_ph',
              'sign_ph']
# the tag under which each setter reports the identifier that becomes the placeholder
PLACEHOLDER_TAG = {'create_key_pair': W.TAG.PRIVATE_KEY_UNIQUE_IDENTIFIER.value}


def placeholder_family():
    """(item names, version): setter [, activate | failing item] , reader  and  setter, setter, reader."""
    out = []
    for version, readers in (((1, 2), READERS_1X), ((2, 0), READERS_20)):
        for s in SETTERS:
            for r in readers:
                out.append(((s, r), version))
                out.append(((s, 'activate_ph', r), version))
                # a failing item between setter and reader (reached under Continue only): the
                # placeholder must survive another item's failure
                out.append(((s, 'get_missing', r), version))
                for s2 in SETTERS:
                    if s2 != s:
                        out.append(((s2, s, r), version))
        for nm in NAMERS:
            for r in readers:
                out.append(((nm, r), version))
    return out
QUICK_ITEMS = ['create', 'register_secret', 'get_ph', 'destroy_ph', 'modify_ph', 'activate_1', 'revoke_1',
               'destroy_1', 'get_missing', 'get_denied', 'register_conflict', 'register_dup_names',
               'create_bad_alg']

THOROUGH_ITEMS = QUICK_ITEMS + ['get_attributes_ph', 'modify_1', 'modify_state_1', 'mac_opaque', 'locate']

STORES = ['active', 'preactive', 'empty']
ID_MODES = ['all', 'none']       # plus ('missing', k)
ERR = [None, BEO.STOP, BEO.CONTINUE, BEO.UNDO]
ORDER = [None, True, False]
# a request of ANOTHER client served by the same engine immediately before the batch (its header
# options must not carry over): Continue with a failing first item / explicit Stop / order option
PRE = [None, 'continue', 'stop', 'ordered']
VERSION = (1, 2)

_STORE_CACHE = {}


def store(kind):
    if kind not in _STORE_CACHE:
        W.CLOCK.now = W.T0
        w = W.World()
        if kind != 'empty':
            w.do(VERSION, W.p_register(W.pie_symmetric(), [
                W.attr(AT.CRYPTOGRAPHIC_USAGE_MASK, MASKS), W.attr(AT.NAME, 'one', 0)]))   # 1
            w.do(VERSION, W.p_create(), user='bob')                                          # 2
            w.do(VERSION, W.p_register(W.pie_opaque()))                                      # 3
            w.do(VERSION, W.p_register(W.pie_symmetric(value=b'\x55' * 16), [
                W.attr(AT.CRYPTOGRAPHIC_USAGE_MASK, [CUM.DERIVE_KEY])]))                     # 4
            w.do(VERSION, W.p_activate('4'))
            r5 = w.do(VERSION, W.p_register(W.pie_symmetric(value=b'\x66' * 16), W.common_attrs(
                names=['w0', 'w1'], groups=['g0', 'g1'], appinfo=[('ns', 'd0'), ('ns', 'd1')]) + [
                    W.attr(AT.CRYPTOGRAPHIC_USAGE_MASK, MASKS)]))                            # 5
            assert r5.uid() == '5', r5.brief()
            r6 = w.do(VERSION, W.p_register(W.pie_symmetric(value=b'\x6b' * 16), [
                W.attr(AT.CRYPTOGRAPHIC_USAGE_MASK, [CUM.WRAP_KEY, CUM.ENCRYPT, CUM.DECRYPT])]))  # 6: KEK
            assert r6.uid() == '6', r6.brief()
            w.do(VERSION, W.p_activate('6'))
            if kind == 'active':
                w.do(VERSION, W.p_activate('1'))
        _STORE_CACHE[kind] = w
    return _STORE_CACHE[kind]


def header_variants(n, tier):
    """(id_mode, error option, order option, store) with at most one deviation from the default
    (two for batches of length <= 2)."""
    default = ('all', None, None, 'active', None)
    idm = ['none'] + [('missing', k) for k in range(n)] if n > 1 else ['none']
    dims = [idm, ERR[1:], ORDER[1:], STORES[1:], PRE[1:]]
    quick = tier == 'quick'
    out = [default]
    for d, vals in enumerate(dims):
        if quick and n >= 3 and d == 2:
            continue        # quick: the order option only on batches of length <= 2
        for v in vals:
            if quick and n >= 3 and d == 4 and v != 'continue':
                continue
            h = list(default)
            h[d] = v
            out.append(tuple(h))
    if n <= 2:
        for d1, d2 in itertools.combinations(range(5), 2):
            if quick and 2 in (d1, d2):
                continue    # quick: no pairs involving the order option
            for v1 in dims[d1]:
                for v2 in dims[d2]:
                    h = list(default)
                    h[d1], h[d2] = v1, v2
                    out.append(tuple(h))
    return out


def ids_for(mode, n):
    if mode == 'all':
        return [b'id%d' % i for i in range(n)]
    if mode == 'none':
        return [None] * n
    k = mode[1]
    return [None if i == k else b'id%d' % i for i in range(n)]


CREATED_TAGS = [W.TAG.UNIQUE_IDENTIFIER.value]


def run_batch(names, hdr, version=VERSION, check_failed=True):
    """Returns (violations [(key, what)], outcome signature)."""
    idm, err, order, st = hdr[:4]
    pre = hdr[4] if len(hdr) > 4 else None
    VERSION = version
    n = len(names)
    W.ENTROPY.constant = True
    W.use_rsa_pool(1)        # batch and twin must generate the same key pair
    base = store(st)
    w = base.clone()
    twin = base.clone()
    bad = []
    try:
        W.CLOCK.now = W.T0 + 100
        items = [ITEMS[nm][0](None) for nm in names]
        ids = ids_for(idm, n)
        if pre is not None:
            # read-only, so the twin needs nothing
            w.do(VERSION, [W.p_get('999'), W.p_locate()], user='bob',
                 error_option={'continue': BEO.CONTINUE, 'stop': BEO.STOP}.get(pre),
                 order_option=True if pre == 'ordered' else None)
        before = w.raw_key()
        r = w.do(VERSION, items, batch_ids=ids, error_option=err, order_option=order)
        after = w.raw_key()
        request_level = len(r.items) == 1 and r.items[0].operation is None
        sig = (tuple(i.status for i in r.items), request_level)

        # ---- batch model ------------------------------------------------------------------
        if r.batch_count != len(r.items):
            bad.append(("envelope|batch-count", "batch count %s but %d items" % (
                r.batch_count, len(r.items))))
        reported_ok = []
        if request_level:
            legit = (err == BEO.UNDO) or (n > 1 and None in ids)
            if not legit:
                bad.append(("request-level-error|unexpected",
                            "whole request rejected: %s" % r.brief()))
        else:
            if len(r.items) > n:
                bad.append(("results|too-many", "%d results for %d items" % (len(r.items), n)))
            for i, it in enumerate(r.items[:n]):
                if it.operation != items[i][0].value:
                    bad.append(("results|operation-echo", "result %d echoes operation %s, item was %s"
                                % (i, it.operation, items[i][0].name)))
                if it.batch_id != ids[i]:
                    bad.append(("results|id-echo", "result %d echoes id %r, item had %r" % (
                        i, it.batch_id, ids[i])))
                if it.ok() and (it.reason is not None or it.message is not None):
                    bad.append(("results|reason-on-success", "result %d: %s" % (i, it.key())))
            fails = [i for i, it in enumerate(r.items) if not it.ok()]
            if err == BEO.CONTINUE:
                expect_n = n
            else:
                expect_n = (fails[0] + 1) if fails else n
            if len(r.items) != expect_n:
                bad.append(("results|count", "%d results, expected %d (items %s, option %s): %s" % (
                    len(r.items), expect_n, names, err, r.brief())))
            reported_ok = [i for i, it in enumerate(r.items[:n]) if it.ok()]

        # ---- twin: apply only the successfully reported items, one request each --------------
        placeholder = None
        for i in range(n):
            rep_item = r.items[i] if (not request_level and i < len(r.items)) else None
            if rep_item is not None and rep_item.ok():
                uses_ph = ITEMS[names[i]][1]
                item = ITEMS[names[i]][0](placeholder if uses_ph else None)
                W.CLOCK.now = W.T0 + 100
                t = twin.do(VERSION, item)
                ti = t.items[0]
                a = (rep_item.status, rep_item.reason, rep_item.message,
                     W.ttlv.render(rep_item.payload) if rep_item.payload else None)
                b = (ti.status, ti.reason, ti.message,
                     W.ttlv.render(ti.payload) if ti.payload else None)
                if a != b:
                    bad.append(("twin|result-differs|%s" % names[i],
                                "item %d (%s) reported %s in the batch but %s when sent alone "
                                "after the same successful items" % (i, names[i], a, b)))
                if ITEMS[names[i]][2] and rep_item.payload:
                    u = W.ttlv.find(rep_item.payload, PLACEHOLDER_TAG.get(
                        names[i], W.TAG.UNIQUE_IDENTIFIER.value))
                    if u:
                        placeholder = u[2]
            elif rep_item is not None and not request_level and check_failed:
                # a failed item must fail the same way when sent alone after the same successes
                # (with the placeholder spelled out): neither the batch context nor the way the
                # object is addressed may change the answer
                uses_ph = ITEMS[names[i]][1]
                if uses_ph and placeholder is None:
                    continue        # nothing to address: no single-request equivalent
                item = ITEMS[names[i]][0](placeholder if uses_ph else None)
                t2 = twin.clone()
                try:
                    W.CLOCK.now = W.T0 + 100
                    ti = t2.do(VERSION, item).items[0]
                finally:
                    t2.close()
                a = (rep_item.status, rep_item.reason, rep_item.message)
                b = (ti.status, ti.reason, ti.message)
                if a != b:
                    bad.append(("twin|failure-differs|%s" % names[i],
                                "item %d (%s) reported %s in the batch but %s when sent alone "
                                "after the same successful items" % (i, names[i], a, b)))
        tafter = twin.raw_key()
        if after != tafter:
            what = _diff(w.dump(), twin.dump())
            if request_level:
                bad.append(("effect-without-report|request-level",
                            "request was rejected as a whole (%s) but the store changed: %s" % (
                                r.brief(), what)))
            else:
                failed_names = sorted(set(names[i] for i in range(len(r.items))
                                          if not r.items[i].ok()))
                unreported = names[len(r.items):]
                bad.append(("store-differs-from-twin|failed=%s" % ','.join(failed_names),
                            "after batch %s (results %s) the store differs from applying only the "
                            "reported successes: %s; unreported items: %s" % (
                                names, r.brief(), what, unreported)))
        return bad, sig
    finally:
        w.close()
        twin.close()


def _diff(d1, d2):
    out = []
    for t in sorted(set(d1) | set(d2)):
        r1 = set(d1.get(t, ((), ()))[1])
        r2 = set(d2.get(t, ((), ()))[1])
        if r1 != r2:
            out.append("%s: +%d -%d rows (e.g. %s)" % (
                t, len(r1 - r2), len(r2 - r1), str(sorted(r1 ^ r2, key=repr)[:1])[:160]))
    return '; '.join(out)


def _hk(hdr):
    idm, err, order, st = hdr[:4]
    return "ids=%s|opt=%s|order=%s|store=%s|pre=%s" % (
        idm if isinstance(idm, str) else 'missing', err.name if err else '-', order, st,
        hdr[4] if len(hdr) > 4 else None)


FAMILY_HEADERS = [('all', None, None, 'active'), ('all', BEO.CONTINUE, None, 'active'),
                  ('none', None, None, 'active')]


def _worker(task):
    seqs, tier = task
    part = Part()
    sigs = set()
    for entry in seqs:
        wide = False
        if isinstance(entry[0], tuple):
            names, version = entry[:2]
            wide = len(entry) > 2
            headers = [h for h in FAMILY_HEADERS if h[0] == 'all' or len(names) == 1]
            family = True
        else:
            names, version, headers, family = entry, VERSION, header_variants(len(entry), tier), False
        for hdr in headers:
            bad, sig = run_batch(names, hdr, version,
                                 check_failed=family or tier == 'thorough' or len(names) <= 2)
            part.count(('wide_batches' if wide else 'family_batches') if family else 'batches')
            sigs.add(sig)
            if wide:
                part.counters.setdefault('_wide', set()).add((names[0 if names[0] != 'create' else 1],
                                                              version, sig[0][:1] if names[0] != 'create'
                                                              else sig[0][1:2]))
            elif family:
                part.count('family_last_ok' if sig[0] and sig[0][-1] == 0 and len(sig[0]) == len(names)
                           else 'family_last_not_ok')
            for key, what in bad:
                part.violation("%s|%s" % (key, _hk(hdr)) if key.startswith(
                    ('request-level', 'effect-without', 'results|count')) else key,
                    what + "  [batch %s, KMIP %d.%d, header %s]" % (
                        list(names), version[0], version[1], _hk(hdr)),
                    {'items': list(names), 'version': list(version), 'header': [
                        hdr[0] if isinstance(hdr[0], str) else list(hdr[0]),
                        hdr[1].name if hdr[1] else None, hdr[2], hdr[3],
                        hdr[4] if len(hdr) > 4 else None]})
    last = seqs[-1][0] if isinstance(seqs[-1][0], tuple) else seqs[-1]
    part.sample({'items': list(last)})
    wide_out = sorted(part.counters.pop('_wide', set()), key=repr)
    out = part.as_dict()
    out['sigs'] = sorted(sigs, key=repr)
    out['wide'] = wide_out
    return out


def run(tier, seed):
    rep = Reporter('C08', 'model_checking', tier, seed)
    alphabet = QUICK_ITEMS if tier == 'quick' else THOROUGH_ITEMS
    maxlen = 3
    seqs = []
    for n in range(1, maxlen + 1):
        seqs += list(itertools.product(alphabet, repeat=n))
    if tier == 'thorough':
        seqs += list(itertools.product(QUICK_ITEMS[:10], repeat=4))
    fam = placeholder_family()
    seqs += fam
    wide = [e + ('wide',) for e in wide_family(tier) + read_family()]
    seqs += wide
    nshard = 64
    sigs = set()
    wide_out = set()
    for part in pmap(_worker, [(seqs[i::nshard], tier) for i in range(nshard)]):
        sigs.update(repr(s) for s in part.pop('sigs', []))
        wide_out.update(tuple(map(repr, x)) for x in part.pop('wide', []))
        rep.merge(part)
    b = (rep.counters.get('batches', 0) + rep.counters.get('family_batches', 0) +
         rep.counters.get('wide_batches', 0))
    wide_ok = len([x for x in wide_out if x[2] == '(0,)'])
    wide_fail = len([x for x in wide_out if x[2] == '(1,)'])
    if wide_ok < 20 or wide_fail < 10:
        rep.harness_error("vacuous: wide family has %d succeeding and %d failing (item, version) "
                          "classes" % (wide_ok, wide_fail))
    if rep.counters.get('family_last_ok', 0) < len(fam) // 4:
        rep.harness_error("vacuous: the placeholder reached a succeeding reader in only %s of %d "
                          "family batches" % (rep.counters.get('family_last_ok'), len(fam)))
    if len(sigs) < 12:
        rep.harness_error("vacuous: only %d distinct result-status signatures" % len(sigs))
    return rep.finish(dict(
        states=b, transitions=b, traces_validated_against_impl=b,
        item_alphabet=len(alphabet), max_batch_length=4 if tier == 'thorough' else 3,
        item_sequences=len(seqs), placeholder_family_sequences=len(fam),
        placeholder_family_reader_succeeded=rep.counters.get('family_last_ok', 0),
        wide_family_sequences=len(wide), wide_items_succeeding=wide_ok, wide_items_failing=wide_fail,
        distinct_status_signatures=len(sigs), exhaustive=True,
        explanation="every item sequence up to the length bound over the alphabet x header variants "
                    "with <= 1 deviation (<= 2 for batches of length <= 2) from (ids on all items, no "
                    "error option, no order option, store with an Active key, no request before it - the "
                    "deviation being another client's Continue / Stop / ordered request on the same "
                    "engine right before the batch); each batch runs on the "
                    "real session+engine and is compared with a twin engine that receives only the "
                    "reported successes; failed items are re-sent alone on a copy of the twin and must "
                    "fail identically. Placeholder family: every operation that sets the ID "
                    "placeholder (Create, CreateKeyPair, Register, DeriveKey) x every operation that "
                    "reads it (13 under KMIP 1.2, 12 under 2.0), as setter-reader, "
                    "setter-Activate-reader and setter-setter-reader batches. Wide family: 27 (KMIP "
                    "1.4) + 20 (KMIP 2.0) attribute operations and multi-row creations aimed at an "
                    "object with two names/groups/application entries, most of which succeed on a "
                    "correct server: [x, committing item], [Create, x] and every ordered pair [x, y, "
                    "Create], each under the default and the Continue option. Read family: 13 operations "
                    "that must change nothing (plain and wrapped Get, GetAttributes, GetAttributeList, "
                    "Locate, Encrypt, Decrypt, MAC, DeriveKey, Query, DiscoverVersions) as [r, committing "
                    "item], [r, r, Create] and [r, w, r] under three versions",
    ), assumptions=[
        "os.urandom is replaced by a length-determined constant so that batch and twin create equal "
        "key material; time is a logical clock",
        "request-level rejection is legitimate for the Undo option and for a missing batch item ID "
        "in a multi-item batch - provided nothing was executed",
    ])


def replay(doc):
    h = doc['header']
    hdr = (h[0] if isinstance(h[0], str) else tuple(h[0]), BEO[h[1]] if h[1] else None, h[2], h[3],
           h[4] if len(h) > 4 else None)
    bad, sig = run_batch(tuple(doc['items']), hdr, tuple(doc.get('version', VERSION)))
    return bool(bad), '\n'.join("%s: %s" % b for b in bad) or 'no violation (%s)' % (sig,)
