"""C14 - Locate returns exactly the permitted, matching objects, newest first.

Exhaustive enumeration over store families x ordered filter conjunctions (0, 1, 2; thorough: 3)
x paging pairs x requesters x protocol versions on the real engine, judged by a reference
matcher over an independent (raw SQLite) snapshot of the store and by ref/access.
"""
import itertools

from mc import world as W
from mc.world import enums, CUM, AT
from mc.ref import access as ref_access
from mc.ref import locate as ref_locate
from mc.ref import store as ref_store
from mc.report import Reporter, Part
from mc.par import pmap

E = enums
ALG = E.CryptographicAlgorithm
ST = E.State
OT = E.ObjectType
T0 = W.T0
W.use_rsa_pool()

REQUESTERS = [('alice', None), ('bob', None), ('carol', ['g1'])]


def _reg(w, pie, attrs, user, t):
    W.CLOCK.now = t
    r = w.do((1, 4), W.p_register(pie, attrs), user=user)
    assert r.items[0].ok(), r.brief()
    return r.uid()


def _mask(*m):
    return [W.attr(AT.CRYPTOGRAPHIC_USAGE_MASK, list(m))]


def build_store(family):
    pol = W.default_policies({'open': W.OPEN_POLICY})
    w = W.World(policies=pol)
    c = W.common_attrs
    if family in ('mixed', 'nocert'):
        u1 = _reg(w, W.pie_symmetric(), c(names=['k1'], groups=['gA']) + _mask(CUM.ENCRYPT, CUM.DECRYPT),
                  'alice', T0)
        w.do((1, 4), W.p_activate(u1))
        _reg(w, W.pie_symmetric(b'\x01' * 32, length=256),
             c(names=['k2', 'shared'], sensitive=True) + _mask(CUM.ENCRYPT), 'alice', T0)
        _reg(w, W.pie_symmetric(b'\x02' * 16), c(names=['shared'], policy='open') +
             _mask(CUM.ENCRYPT, CUM.DECRYPT, CUM.MAC_GENERATE), 'bob', T0 + 5)
        _reg(w, W.pie_public(), c(names=['pub']) + _mask(CUM.VERIFY), 'alice', T0 + 5)
        _reg(w, W.pie_private(), c(sensitive=False) + _mask(CUM.SIGN), 'alice', T0 + 5)
        _reg(w, W.pie_secret(), c(groups=['gA', 'gB'], appinfo=[('ns', 'd1')]), 'alice', T0 + 9)
        if family == 'mixed':
            _reg(w, W.pie_opaque(), c(policy='open', names=['shared'], groups=['gB']), 'bob', T0 + 9)
            _reg(w, W.pie_certificate(), c(names=['cert'], appinfo=[('ns', 'd1'), ('ns2', 'd2')]),
                 'alice', T0 + 12)
            _reg(w, W.pie_split(), c(policy='open') + _mask(CUM.ENCRYPT), 'alice', T0 + 12)
    elif family == 'states':
        ids = []
        for i in range(5):
            ids.append(_reg(w, W.pie_symmetric(bytes([i]) * 16), c(names=['s%d' % i], policy='open') +
                            _mask(CUM.ENCRYPT), 'alice' if i % 2 == 0 else 'bob', T0 + (i // 2) * 3))
        owner = lambda i: 'alice' if i % 2 == 0 else 'bob'   # noqa: E731
        for i in (1, 2, 3):
            w.do((1, 4), W.p_activate(ids[i]), user=owner(i))
        w.do((1, 4), W.p_revoke(ids[2]), user=owner(2))
        w.do((1, 4), W.p_revoke(ids[3], E.RevocationReasonCode.KEY_COMPROMISE), user=owner(3))
    elif family == 'large':
        # 330 objects created in bursts (30 per second), owners and policies interleaved: whatever
        # the listing does internally (paging, limits, caches sized for small stores) shows here
        for i in range(330):
            user = 'bob' if i % 3 == 2 else 'alice'
            _reg(w, W.pie_secret(bytes([i % 251]) * 8), c(names=['L%d' % i], policy='open' if i % 5 == 0 else None,
                                                             groups=['gA'] if i % 7 == 0 else []), user, T0 + i // 30)
    elif family == 'empty':
        pass
    return w, pol


def check_large(part):
    w, pol = build_store('large')
    try:
        dump = w.dump()
        key0 = W.db_key(dump)
        objs = ref_store.objects(dump)
        W.CLOCK.now = T0 + 100
        for filters in [(), (('Object Type', OT.SECRET_DATA.value),), (('Name', 'L7'),), (('Name', 'L299'),),
                        (('Object Group', 'gA'),), (('Initial Date', T0 + 3), ('Initial Date', T0 + 6)),
                        (('Initial Date', T0 + 8),), (('Operation Policy Name', 'open'),)]:
            for user, groups in REQUESTERS:
                check_locate(w, objs, pol, filters, user, groups, (1, 4), part, 'large', False)
                exp = expected(objs, pol, filters, user, groups)
                full, _ = locate(w, filters, user, groups, (1, 4))
                if full is None or set(full) != set(exp):
                    continue       # reported by check_locate
                for size in (64, 100, 256):
                    acc, off = [], 0
                    while off <= len(full) + size:
                        page, pit = locate(w, filters, user, groups, (1, 4), off, size)
                        part.count('locates')
                        if not page:
                            break
                        acc += page
                        off += size
                    if acc != full:
                        part.violation("paging|partition|large", "store 'large' (%d objects): pages of %d of "
                                       "Locate(%s) by %s give %d identifiers, the full result has %d (first "
                                       "difference at position %s)" % (
                                           len(objs), size, filters, user, len(acc), len(full),
                                           next((i for i, (a, b) in enumerate(zip(acc, full)) if a != b), '-')),
                                       {'family': 'large', 'filters': [list(f) for f in filters], 'user': user,
                                        'groups': groups, 'version': [1, 4]})
        if W.db_key(w.dump()) != key0:
            part.violation("locate-changes-store", "the store changed during Locate requests", {})
        part.sample({'family': 'large', 'objects': len(objs)})
    finally:
        w.close()


FILTERS = [
    ('Name', 'shared'), ('Name', 'k1'), ('Name', 'nope'),
    ('State', ST.PRE_ACTIVE.value), ('State', ST.ACTIVE.value), ('State', ST.DESTROYED.value),
    ('Object Type', OT.SYMMETRIC_KEY.value), ('Object Type', OT.CERTIFICATE.value),
    ('Object Type', OT.OPAQUE_DATA.value), ('Object Type', OT.TEMPLATE.value),
    ('Cryptographic Algorithm', ALG.AES.value), ('Cryptographic Algorithm', ALG.RSA.value),
    ('Cryptographic Algorithm', ALG.DES.value),
    ('Cryptographic Length', 128), ('Cryptographic Length', 256), ('Cryptographic Length', 1024),
    ('Cryptographic Usage Mask', CUM.ENCRYPT.value),
    ('Cryptographic Usage Mask', CUM.ENCRYPT.value | CUM.DECRYPT.value),
    ('Cryptographic Usage Mask', CUM.SIGN.value), ('Cryptographic Usage Mask', CUM.EXPORT.value),
    ('Operation Policy Name', 'default'), ('Operation Policy Name', 'open'),
    ('Operation Policy Name', 'zz'),
    ('Object Group', 'gA'), ('Object Group', 'gB'), ('Object Group', 'zz'),
    ('Application Specific Information', ('ns', 'd1')),
    ('Application Specific Information', ('ns', 'zz')),
    ('Certificate Type', E.CertificateType.X_509.value),
    ('Certificate Type', E.CertificateType.PGP.value),
    ('Unique Identifier', '1'), ('Unique Identifier', '3'), ('Unique Identifier', '99'),
    ('Sensitive', True), ('Sensitive', False),
    ('Initial Date', T0), ('Initial Date', T0 + 5), ('Initial Date', T0 + 7),
    ('Initial Date', T0 + 12),
    # boundary values of the date type: the epoch itself and the far future (ranges like [0, T])
    ('Initial Date', 0), ('Initial Date', 2 ** 32 + 5),
    # falsy values of the other types: a filter is a filter even when its value is 0 / empty
    ('Cryptographic Length', 0), ('Cryptographic Usage Mask', 0), ('Object Group', ''),
    ('Operation Policy Name', ''), ('Unique Identifier', ''), ('Unique Identifier', '0'),
]
ENUMS = {'State': ST, 'Object Type': OT, 'Cryptographic Algorithm': ALG,
         'Certificate Type': E.CertificateType}


def to_attr(f):
    name, v = f
    at = AT(name)
    if name in ENUMS:
        v = ENUMS[name](v)
    elif name == 'Cryptographic Usage Mask':
        v = [m for m in CUM if m.value & v]
    elif name == 'Application Specific Information':
        v = {"application_namespace": v[0], "application_data": v[1]}
    return W.attr(at, v)


PAGES = [None, 0, 1, 2, 'n', 'n+1']


def locate(w, filters, user, groups, version, offset=None, maximum=None):
    r = w.do(version, W.p_locate([to_attr(f) for f in filters], maximum, offset),
             user=user, groups=groups)
    it = r.items[0]
    if not it.ok():
        return None, it
    ids = [c[2] for c in (it.payload[2] if it.payload else [])
           if c[0] == W.TAG.UNIQUE_IDENTIFIER.value]
    return ids, it


def expected(objs, policies, filters, user, groups):
    out = []
    for o in objs.values():
        ok = ref_access.allowed(policies, o['policy'], user, groups, o['owner'], OT(o['object_type']),
                                E.Operation.LOCATE, E.Policy)
        if True not in ok:
            continue
        if ref_locate.matches(o, filters):
            out.append(o['uid'])
    return out


def fkey(filters):
    return '+'.join(f[0] for f in filters) or '(none)'


def check_locate(w, objs, policies, filters, user, groups, version, part, family, paging):
    ctx = {'family': family, 'filters': [list(f) if not isinstance(f[1], tuple) else
                                         [f[0], list(f[1])] for f in filters],
           'user': user, 'groups': groups, 'version': list(version)}
    try:
        exp = expected(objs, policies, filters, user, groups)
        exp_err = False
    except ref_locate.TooManyDates:
        exp, exp_err = None, True
    got, it = locate(w, filters, user, groups, version)
    part.count('locates')
    part.counters.setdefault('_out', set()).add((fkey(filters), tuple(got) if got is not None else it.reason))
    if exp_err:
        if got is not None:
            part.violation("three-dates-accepted", "Locate with three Initial Date filters answered %s"
                           % got, ctx)
        return
    if got is None:
        part.violation("locate-fails|%s|%s" % (fkey(filters), E.ResultReason(it.reason).name),
                       "Locate(%s) by %s on store '%s' failed: %s (expected %s)" % (
                           filters, user, family, it.brief(), sorted(exp, key=int)), ctx)
        return
    if set(got) != set(exp) or len(got) != len(set(got)):
        extra = sorted(set(got) - set(exp), key=int)
        missing = sorted(set(exp) - set(got), key=int)
        why = []
        for u in extra:
            o = objs[u]
            why.append("%s(%s of %s, policy %s)" % (u, OT(o['object_type']).name, o['owner'], o['policy']))
        part.violation("wrong-set|%s|%s" % (fkey(filters), 'extra' if extra else 'missing'),
                       "Locate(%s) by %s%s v%s on store '%s' returned %s, expected the set %s "
                       "(extra %s, missing %s)" % (filters, user, groups or '', version, family, got,
                                                    sorted(exp, key=int), why, missing), ctx)
        return
    dates = [objs[u]['initial_date'] for u in got]
    if any(dates[i] < dates[i + 1] for i in range(len(dates) - 1)):
        part.violation("order|%s" % fkey(filters),
                       "Locate(%s) result %s is not newest first (dates %s)" % (filters, got, dates), ctx)
    if not paging:
        return
    n = len(got)
    for off in PAGES:
        for mx in PAGES:
            if off is None and mx is None:
                continue
            o = {'n': n, 'n+1': n + 1}.get(off, off)
            m = {'n': n, 'n+1': n + 1}.get(mx, mx)
            page, pit = locate(w, filters, user, groups, version, o, m)
            part.count('locates')
            lo = o or 0
            want = got[lo:] if m is None else got[lo:lo + m]
            if page != want:
                part.violation("paging|offset=%s|max=%s" % (off, mx),
                               "Locate(%s, offset=%s, maximum=%s) returned %s, expected slice %s of %s"
                               % (filters, o, m, page if page is not None else pit.brief(), want, got),
                               dict(ctx, offset=o, maximum=m))
    # consecutive pages partition the result
    for size in (1, 2):
        acc = []
        off = 0
        while True:
            page, pit = locate(w, filters, user, groups, version, off, size)
            part.count('locates')
            if not page:
                break
            acc += page
            off += size
            if off > n + 2:
                break
        if acc != got:
            part.violation("paging|partition|size=%d" % size,
                           "pages of size %d concatenate to %s, full result is %s" % (size, acc, got),
                           dict(ctx, page_size=size))


def conjunctions(tier):
    single = [(f,) for f in FILTERS]
    pairs = [(a, b) for a in FILTERS for b in FILTERS if a != b]
    out = [()] + single + pairs
    dates = [f for f in FILTERS if f[0] == 'Initial Date']
    others = [f for f in FILTERS if f[0] != 'Initial Date']
    # triples that contain a date range, in every position order
    triple_others = others if tier == 'thorough' else others[::3]
    for d1, d2 in [(dates[0], dates[1]), (dates[1], dates[0]), (dates[0], dates[3]),
                   (dates[2], dates[2])]:
        for o in triple_others:
            out += [(d1, d2, o), (d1, o, d2), (o, d1, d2)]
    out.append((dates[0], dates[1], dates[3]))
    if tier == 'thorough':
        out += [(a, b, c) for a in others[::2] for b in others[1::3] for c in others[::4]
                if len({a, b, c}) == 3]
    return out


def purged_copy(w, objs, pol, user, groups):
    """A copy of the store from which every object the requester may NOT locate has been removed
    (rows deleted from the SQLite file directly, not through the server)."""
    import sqlite3
    hidden = [u for u, o in objs.items() if True not in ref_access.allowed(
        pol, o['policy'], user, groups, o['owner'], OT(o['object_type']), E.Operation.LOCATE, E.Policy)]
    w2 = w.clone()
    w2.engine._data_store.dispose()
    con = sqlite3.connect(w2.db)
    try:
        for u in hidden:
            con.execute("DELETE FROM managed_objects WHERE uid = ?", (int(u),))
        con.commit()
    finally:
        con.close()
    w2.restart(clean=True)
    return w2, hidden


def noninterference(family, part, tier):
    """What a requester's Locate answers - identifiers, success or failure, reason AND message - may
    not depend on objects the requester is not permitted to locate: every request is sent to the
    store and to a copy without those objects, and the two answers must be identical."""
    w, pol = build_store(family)
    try:
        objs = ref_store.objects(w.dump())
        dates = [f for f in FILTERS if f[0] == 'Initial Date']
        others = [f for f in FILTERS if f[0] != 'Initial Date']
        conjs = [()] + [(f,) for f in FILTERS]
        three = (dates[0], dates[1], dates[3])
        conjs += [(o,) + three for o in others] + [three + (o,) for o in others[::4]]
        conjs += [(o, dates[0], dates[1]) for o in others[::2]]
        if tier == 'thorough':
            conjs += [(a, b) + three for a in others[::3] for b in others[1::4]]
        for user, groups in REQUESTERS:
            w2, hidden = purged_copy(w, objs, pol, user, groups)
            try:
                if not hidden:
                    continue
                part.count('noninterference_requesters')
                for filters in conjs:
                    W.CLOCK.now = T0 + 100
                    a = locate(w, filters, user, groups, (1, 4))
                    b = locate(w2, filters, user, groups, (1, 4))
                    part.count('locates', 2)
                    part.count('noninterference_pairs')
                    ka = (a[0], a[1].status, a[1].reason, a[1].message)
                    kb = (b[0], b[1].status, b[1].reason, b[1].message)
                    if ka != kb:
                        part.violation("hidden-objects-change-the-answer|%s" % fkey(filters),
                                       "Locate(%s) by %s on store '%s' answers %s; on the same store without "
                                       "the %d objects %s may not locate it answers %s" % (
                                           filters, user, family, (a[0], a[1].brief()), len(hidden), user,
                                           (b[0], b[1].brief())),
                                       {'family': family, 'noninterference': True, 'user': user, 'groups': groups,
                                        'filters': [list(f) if not isinstance(f[1], tuple) else [f[0], list(f[1])]
                                                    for f in filters]})
            finally:
                w2.close()
        part.sample({'noninterference_family': family, 'conjunctions': len(conjs)})
    finally:
        w.close()


FAMILIES = ['mixed', 'nocert', 'states', 'empty']


def _worker(task):
    family, conjs, tier, versions = task
    part = Part()
    if conjs == 'noninterference':
        noninterference(family, part, tier)
        out = part.as_dict()
        out['out'] = 0
        return out
    if conjs == 'large':
        check_large(part)
        out = part.as_dict()
        out['out'] = len(part.counters.pop('_out', set()))
        return out
    w, pol = build_store(family)
    try:
        dump = w.dump()
        key0 = W.db_key(dump)
        objs = ref_store.objects(dump)
        W.CLOCK.now = T0 + 100
        for filters in conjs:
            for version in versions:
                if version == (2, 0) and any(f[0] == 'Operation Policy Name' for f in filters):
                    continue
                for user, groups in REQUESTERS:
                    paging = len(filters) <= 1 and (tier == 'thorough' or version == (1, 4))
                    check_locate(w, objs, pol, filters, user, groups, version, part, family, paging)
        if W.db_key(w.dump()) != key0:
            part.violation("locate-changes-store", "the store changed during Locate requests", {})
        part.sample({'family': family, 'objects': len(objs), 'last_filters': [list(map(str, f)) for f in conjs[-1]]})
    finally:
        w.close()
    out = part.as_dict()
    out['out'] = len(part.counters.pop('_out', set()))
    return out


def run(tier, seed):
    rep = Reporter('C14', 'model_checking', tier, seed)
    conjs = conjunctions(tier)
    versions = [(1, 4), (2, 0)]
    tasks = []
    tasks.append(('large', 'large', tier, versions))
    for fam in FAMILIES:
        k = 16 if fam != 'empty' else 1
        cs = conjs if fam != 'empty' else conjs[:len(FILTERS) + 1]
        for i in range(k):
            tasks.append((fam, cs[i::k], tier, versions))
    for fam in ('mixed', 'nocert', 'states'):
        tasks.append((fam, 'noninterference', tier, versions))
    distinct = 0
    for part in pmap(_worker, tasks):
        distinct += part.pop('out', 0)
        rep.merge(part)
    n = rep.counters.get('locates', 0)
    if distinct < 200:
        rep.harness_error("vacuous: %d distinct (filter, result) outcomes" % distinct)
    return rep.finish(dict(
        states=len(FAMILIES), transitions=n, traces_validated_against_impl=n,
        filter_menu=len(FILTERS), conjunctions=len(conjs), store_families=len(FAMILIES),
        requesters=len(REQUESTERS), versions=len(versions), distinct_outcomes=distinct,
        noninterference_pairs=rep.counters.get('noninterference_pairs', 0),
        exhaustive=True,
        explanation="states = store families built by real operations under the logical clock (ties "
                    "and gaps in initial dates, mixed types/owners/policies/states); transitions = "
                    "Locate requests: all ordered conjunctions of 0..2 filters from the menu, "
                    "triples containing a date range in every position (thorough: more triples), x 3 "
                    "requesters x KMIP 1.4/2.0; for conjunctions of <= 1 filter all 35 "
                    "(offset, maximum) pairs and page-wise partitioning. Non-interference: per store family "
                    "and requester, ~110 conjunctions (incl. every filter followed / preceded by three "
                    "Initial Dates) are sent to the store and to a copy from which the objects the "
                    "requester may not locate were deleted in the SQLite file; identifiers, status, "
                    "reason and message must be identical",
    ), assumptions=[
        "ties in initial date may come in any order; paging is compared with the unpaged answer of "
        "the same store",
        "the Operation Policy Name filter is not sent under KMIP 2.0 (the codec refuses it)",
    ])


def replay(doc):
    part = Part()
    if doc.get('noninterference'):
        noninterference(doc['family'], part, 'thorough')
        v = part.violations
        return bool(v), '\n'.join("%s: %s" % (k, t) for k, t, _ in v[:10]) or 'no violation'
    if doc.get('family') == 'large':
        check_large(part)
        v = part.violations
        return bool(v), '\n'.join("%s: %s" % (k, t) for k, t, _ in v[:10]) or 'no violation'
    w, pol = build_store(doc['family'])
    try:
        objs = ref_store.objects(w.dump())
        filters = [tuple(f) if not isinstance(f[1], list) else (f[0], tuple(f[1]))
                   for f in doc['filters']]
        W.CLOCK.now = T0 + 100
        check_locate(w, objs, pol, tuple(filters), doc['user'], doc['groups'], tuple(doc['version']),
                     part, doc['family'], True)
        v = part.violations
        return bool(v), '\n'.join("%s: %s" % (k, t) for k, t, _ in v) or 'no violation'
    finally:
        w.close()
