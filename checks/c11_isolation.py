"""C11 - requests are isolated from each other's transient state.

Explicit-state exploration of the real engine+session: every (prefix history, probe) pair up to
the depth bound. Oracle (differential, no hand-written expectation): the probe's response and the
post-state on the engine that ran the prefix equal those on a FRESH engine opened on a copy of
the same database.
"""
import struct
import pickle
import itertools
import os

from mc import world as W
from mc.world import enums, CUM
from mc.report import Reporter, Part
from mc.par import pmap
from mc.ref import shapes

E = enums
W.use_rsa_pool()


TEAM_POLICY = {'groups': {'g1': {ot: {op: E.Policy.ALLOW_ALL for op in E.Operation}
                                 for ot in E.ObjectType}}}


def _seed_world():
    """Initial store: objects that later requests can address."""
    w = W.World(policies=W.default_policies({'team': TEAM_POLICY}))
    # 1: alice's AES key, active, derive/encrypt/decrypt/mac masks
    w.do((1, 2), W.p_register(W.pie_symmetric(), [W.attr(W.AT.CRYPTOGRAPHIC_USAGE_MASK, [
        CUM.ENCRYPT, CUM.DECRYPT, CUM.DERIVE_KEY, CUM.MAC_GENERATE, CUM.WRAP_KEY])] +
        W.common_attrs(names=['k1'])))
    w.do((1, 2), W.p_activate('1'))
    # 2: bob's key
    w.do((1, 2), W.p_create(), user='bob')
    # 3, 4: alice's RSA pair (registered; no key generation needed)
    w.do((1, 2), W.p_register(W.pie_public(), [W.attr(W.AT.CRYPTOGRAPHIC_USAGE_MASK, [CUM.VERIFY])]))
    w.do((1, 2), W.p_register(W.pie_private(), [W.attr(W.AT.CRYPTOGRAPHIC_USAGE_MASK, [CUM.SIGN])]))
    w.do((1, 2), W.p_activate('3'))
    w.do((1, 2), W.p_activate('4'))
    # 5: alice's pre-active key (can be modified and destroyed)
    w.do((1, 2), W.p_create(W.sym_attrs(masks=[CUM.ENCRYPT], names=['k5', 'k5b'])))
    # 6: a key of alice's under the 'team' policy (group g1 may do everything with it)
    w.do((1, 2), W.p_create(W.sym_attrs(masks=[CUM.ENCRYPT], policy='team')), groups=['g1'])
    return w


# name -> (user, version, items builder, header kwargs)
PREFIX = {
    'a12.create': ('alice', (1, 2), lambda: [W.p_create()], {}),
    'b20.create': ('bob', (2, 0), lambda: [W.p_create()], {}),
    'a14.register_secret': ('alice', (1, 4), lambda: [W.p_register(W.pie_secret())], {}),
    'b10.register_opaque': ('bob', (1, 0), lambda: [W.p_register(W.pie_opaque())], {}),
    'a12.derive': ('alice', (1, 2), lambda: [W.p_derive_key(['1'])], {}),
    'a12.batch_create_get': ('alice', (1, 2), lambda: [W.p_create(), W.p_get()], {}),
    'b13.batch_create_fail': ('bob', (1, 3), lambda: [W.p_create(), W.p_get('999')], {}),
    'a10.get_missing': ('alice', (1, 0), lambda: [W.p_get('999')], {}),
    'b11.locate': ('bob', (1, 1), lambda: [W.p_locate()], {}),
    'a11.discover': ('alice', (1, 1), lambda: [W.p_discover()], {}),
    'a20.attr_list': ('alice', (2, 0), lambda: [W.p_get_attribute_list('1')], {}),
    'b10.get_denied': ('bob', (1, 0), lambda: [W.p_get('1')], {}),
    'a99.unsupported_version': ('alice', (9, 9), lambda: [W.p_create()], {}),
    'a12.async': ('alice', (1, 2), lambda: [W.p_create()], {'async_indicator': True}),
    'a12.stale': ('alice', (1, 2), lambda: [W.p_create()], {'time_stamp': W.T0 - 1000}),
    'a12.future': ('alice', (1, 2), lambda: [W.p_create()], {'time_stamp': W.T0 + 1000}),
    'a12.undo': ('alice', (1, 2), lambda: [W.p_create()],
                 {'error_option': E.BatchErrorContinuationOption.UNDO}),
    'a12.keypair': ('alice', (1, 2), lambda: [W.p_create_key_pair(**W.rsa_pair_attrs())], {}),
    'g14.create': ('carol', (1, 4), lambda: [W.p_create()], {'_groups': ['g1']}),
}
# the header family: every optional request-header field at a non-default value - none of them may
# outlive its request (the probes below that are sensitive to them: multi-item batches whose first
# item fails, responses with a size, requests without credentials)
BEO = E.BatchErrorContinuationOption
_CRED = W.cobjects.Credential(
    credential_type=E.CredentialType.USERNAME_AND_PASSWORD,
    credential_value=W.cobjects.UsernamePasswordCredential(username='mallory', password='pw'))
PREFIX.update({
    'a12.continue': ('alice', (1, 2), lambda: [W.p_discover()], {'error_option': BEO.CONTINUE}),
    'b12.continue_fail_create': ('bob', (1, 2), lambda: [W.p_get('999'), W.p_create()],
                                 {'error_option': BEO.CONTINUE}),
    'a20.continue': ('alice', (2, 0), lambda: [W.p_query()], {'error_option': BEO.CONTINUE}),
    'a12.stop': ('alice', (1, 2), lambda: [W.p_discover()], {'error_option': BEO.STOP}),
    'a12.order_true': ('alice', (1, 2), lambda: [W.p_locate()], {'order_option': True}),
    'a12.order_false': ('alice', (1, 2), lambda: [W.p_locate()], {'order_option': False}),
    'a12.maxsize_small': ('alice', (1, 2), lambda: [W.p_get('1')], {'max_response_size': 64}),
    'a12.maxsize_big': ('alice', (1, 2), lambda: [W.p_discover()], {'max_response_size': 1 << 20}),
    'a12.async_false': ('alice', (1, 2), lambda: [W.p_locate()], {'async_indicator': False}),
    'a12.timestamp': ('alice', (1, 2), lambda: [W.p_locate()], {'time_stamp': W.T0}),
    'a12.credentials': ('alice', (1, 2), lambda: [W.p_locate()], {'credentials': [_CRED]}),
    'a12.ids_all': ('alice', (1, 2), lambda: [W.p_locate()], {'batch_ids': 'all'}),
})
# requests refused at the header under OTHER versions than 1.2 (a refused request, too, may leave nothing
# behind - not even the version it announced)
PREFIX.update({
    'a14.async': ('alice', (1, 4), lambda: [W.p_create()], {'async_indicator': True}),
    'a10.undo': ('alice', (1, 0), lambda: [W.p_create()], {'error_option': BEO.UNDO}),
    'b20.stale': ('bob', (2, 0), lambda: [W.p_create()], {'time_stamp': W.T0 - 1000}),
    'b13.async': ('bob', (1, 3), lambda: [W.p_locate()], {'async_indicator': True}),
})
# requests populating OPTIONAL parts of the encoding that ordinary clients leave empty (attributes embedded
# in a Key Value, a wrapped key with every wrapping-data field): whatever the decoder keeps of them may
# not show in the answers to later requests


def _register_embedded():
    secret = W.OBJ_FACTORY.convert(W.pie_symmetric(b'\x3c' * 16))
    secret.key_block.key_value.attributes = [
        W.attr(W.AT.CONTACT_INFORMATION, 'embedded@example.org'), W.attr(W.AT.NAME, 'embedded', 0)]
    return [(E.Operation.REGISTER, W.payloads.RegisterRequestPayload(
        object_type=E.ObjectType.SYMMETRIC_KEY, template_attribute=W.template([]), managed_object=secret))]


PREFIX['a14.register_embedded'] = ('alice', (1, 4), _register_embedded, {})
# the identifier family: the same object read, changed and destroyed under its canonical identifier and
# under other spellings the server accepts for it ('05', ' 5'); whatever an engine remembers about an
# object may not outlive what later requests do to it
for _sp, _lbl in (('5', '5'), ('05', '05'), (' 5', 'sp5')):
    PREFIX['a12.get_%s' % _lbl] = ('alice', (1, 2), (lambda _sp=_sp: [W.p_get(_sp)]), {})
    PREFIX['a12.attr_list_%s' % _lbl] = ('alice', (1, 2), (lambda _sp=_sp: [W.p_get_attribute_list(_sp)]), {})
    PREFIX['a14.rename_%s' % _lbl] = ('alice', (1, 4), (lambda _sp=_sp: [
        W.p_modify_attribute_1x(_sp, W.AT.NAME, 'renamed', 0)]), {})
    PREFIX['a12.destroy_%s' % _lbl] = ('alice', (1, 2), (lambda _sp=_sp: [W.p_destroy(_sp)]), {})
ID_FAMILY = [k for k in PREFIX if k.split('.')[1].split('_')[0] in ('get', 'attr', 'rename', 'destroy')
             and k.endswith(('_5', '_05', '_sp5'))]

# the membership family: ONE connection of carol's while her group list in the directory service
# changes between requests - every request is authorised with the groups the directory reports then
for _g, _lbl in ((['g1'], 'g1'), (['g2'], 'g2'), ([], 'none'), (['g2', 'g1'], 'g2g1')):
    PREFIX['d.%s.get6' % _lbl] = ('carol', (1, 2), (lambda: [W.p_get('6')]), {'_dir': _g})
    PREFIX['d.%s.locate' % _lbl] = ('carol', (1, 4), (lambda: [W.p_locate()]), {'_dir': _g})
DIR_FAMILY = [k for k in PREFIX if k.startswith('d.')]

# engine seam (no codec on the way in): header handling for versions the decoder never lets through
PREFIX['e.a15.query'] = ('alice', (1, 5), lambda: [W.p_query()], {'_seam': 'engine'})
PREFIX['e.b30.create'] = ('bob', (3, 0), lambda: [W.p_create()], {'_seam': 'engine'})
PREFIX['e.a10.attr_list'] = ('alice', (1, 0), lambda: [W.p_get_attribute_list('1')],
                             {'_seam': 'engine'})
QUICK_PREFIX = [k for k in PREFIX if k not in ('a12.keypair', 'a12.future', 'b10.register_opaque')]

_AES_PARAMS = 'default'

PROBE = {}


def _add(name, user, version, builder, **hdr):
    PROBE[name] = (user, version, builder, hdr)


for _u, _v in (('alice', (1, 2)), ('bob', (1, 2)), ('alice', (2, 0)), ('bob', (1, 0))):
    _t = '%s%d%d.' % (_u[0], _v[0], _v[1])
    _add(_t + 'get', _u, _v, lambda: [W.p_get()])
    _add(_t + 'get_attributes', _u, _v, lambda: [W.p_get_attributes()])
    _add(_t + 'get_attribute_list', _u, _v, lambda: [W.p_get_attribute_list()])
    _add(_t + 'destroy', _u, _v, lambda: [W.p_destroy()])
for _u in ('alice', 'bob'):
    _t = _u[0] + '12.'
    _add(_t + 'encrypt', _u, (1, 2), lambda: [W.p_encrypt()])
    _add(_t + 'decrypt', _u, (1, 2), lambda: [W.p_decrypt()])
    _add(_t + 'sign', _u, (1, 2), lambda: [W.p_sign()])
    _add(_t + 'signature_verify', _u, (1, 2), lambda: [W.p_signature_verify()])
    _add(_t + 'mac', _u, (1, 2), lambda: [W.p_mac()])
    _add(_t + 'delete_attribute', _u, (1, 2),
         lambda: [W.p_delete_attribute_1x(None, 'Name', 0)])
    _add(_t + 'modify_attribute', _u, (1, 2),
         lambda: [W.p_modify_attribute_1x(None, W.AT.NAME, 'renamed', 0)])
    _add(_u[0] + '20.set_attribute', _u, (2, 0),
         lambda: [W.p_set_attribute(None, W.AT.SENSITIVE, True)])
    _add(_u[0] + '20.get_wrapped', _u, (2, 0),
         lambda: [W.p_get(None, wrapping_spec=W.wrapping_spec('1'))])
    # identity-sensitive
    _add(_t + 'create', _u, (1, 2), lambda: [W.p_create()])
    _add(_t + 'locate', _u, (1, 2), lambda: [W.p_locate()])
    _add(_t + 'get1', _u, (1, 2), lambda: [W.p_get('1')])
    _add(_t + 'get2', _u, (1, 2), lambda: [W.p_get('2')])
# version-sensitive
for _v in ((1, 0), (1, 1), (1, 2), (1, 3), (1, 4), (2, 0)):
    _add('a%d%d.attr_list1' % _v, 'alice', _v, lambda: [W.p_get_attribute_list('1')])
    _add('a%d%d.get_attributes1' % _v, 'alice', _v, lambda: [W.p_get_attributes('1')])
for _v in ((1, 0), (1, 2), (1, 3), (1, 4), (2, 0)):
    # attributes only some versions define, supplied at creation: accepted or refused by the version of
    # THIS request
    _add('a%d%d.create_sensitive' % _v, 'alice', _v, lambda: [W.p_create(W.sym_attrs(sensitive=True))])
    if _v < (2, 0):
        _add('a%d%d.create_policy' % _v, 'alice', _v, lambda: [W.p_create(W.sym_attrs(policy='default'))])
for _v in ((1, 0), (1, 1), (1, 2)):
    _add('a%d%d.query' % _v, 'alice', _v, lambda: [W.p_query()])
_add('a11.encrypt1', 'alice', (1, 1), lambda: [W.p_encrypt('1')])
_add('a12.encrypt1', 'alice', (1, 2), lambda: [W.p_encrypt('1', iv=b'\x01' * 16)])
_add('a10.discover', 'alice', (1, 0), lambda: [W.p_discover()])
_add('a11.discover', 'alice', (1, 1), lambda: [W.p_discover()])
_add('a20.set_attribute1', 'alice', (2, 0), lambda: [W.p_set_attribute('1', W.AT.SENSITIVE, True)])
_add('a14.set_attribute1', 'alice', (1, 4), lambda: [W.p_set_attribute('1', W.AT.SENSITIVE, True)],
     encode_as=(2, 0))
_add('g12.locate', 'carol', (1, 2), lambda: [W.p_locate()], _groups=['g1'])
_add('a12.batch_get_first', 'alice', (1, 2), lambda: [W.p_get(), W.p_create()],
     error_option=E.BatchErrorContinuationOption.CONTINUE)

# membership-family probes
for _g, _lbl in ((['g1'], 'g1'), (['g2'], 'g2'), ([], 'none')):
    _add('d.%s.get6' % _lbl, 'carol', (1, 2), (lambda: [W.p_get('6')]), _dir=_g)
    _add('d.%s.get_attributes6' % _lbl, 'carol', (2, 0), (lambda: [W.p_get_attributes('6')]), _dir=_g)
    _add('d.%s.locate' % _lbl, 'carol', (1, 2), (lambda: [W.p_locate()]), _dir=_g)
# identifier-family probes
for _sp, _lbl in (('5', '5'), ('05', '05')):
    _add('a12.get_%s' % _lbl, 'alice', (1, 2), (lambda _sp=_sp: [W.p_get(_sp)]))
    _add('a14.get_attributes_%s' % _lbl, 'alice', (1, 4), (lambda _sp=_sp: [W.p_get_attributes(_sp)]))
    _add('a12.destroy_%s' % _lbl, 'alice', (1, 2), (lambda _sp=_sp: [W.p_destroy(_sp)]))
    _add('a12.activate_%s' % _lbl, 'alice', (1, 2), (lambda _sp=_sp: [W.p_activate(_sp)]))
_add('a12.locate_k5', 'alice', (1, 2), lambda: [W.p_locate([W.attr(W.AT.NAME, 'k5')])])
# header-sensitive probes
_add('a12.batch_fail_first', 'alice', (1, 2), lambda: [W.p_get('999'), W.p_create()])
_add('b20.batch_fail_first', 'bob', (2, 0), lambda: [W.p_get('999'), W.p_create()])
_add('a12.batch_fail_first_stop', 'alice', (1, 2), lambda: [W.p_get('999'), W.p_create()],
     error_option=BEO.STOP)
_add('a14.batch_fail_middle', 'alice', (1, 4),
     lambda: [W.p_create(), W.p_activate('999'), W.p_get(), W.p_destroy()])
_add('a12.batch_single_noid', 'alice', (1, 2), lambda: [W.p_locate()], batch_ids='none')

_add('e.a15.query', 'alice', (1, 5), lambda: [W.p_query()], _seam='engine')
_add('e.b15.attr_list1', 'bob', (1, 5), lambda: [W.p_get_attribute_list('1')], _seam='engine')
_add('e.a30.create', 'alice', (3, 0), lambda: [W.p_create()], _seam='engine')
_add('e.a12.query', 'alice', (1, 2), lambda: [W.p_query()], _seam='engine')
_add('e.a14.attr_list1', 'alice', (1, 4), lambda: [W.p_get_attribute_list('1')], _seam='engine')
QUICK_PROBE = list(PROBE)


def _apply(w, spec):
    user, version, builder, hdr = spec
    hdr = dict(hdr)
    groups = hdr.pop('_groups', None)
    if '_dir' in hdr:
        W.SLUGS_DIRECTORY.clear()
        W.SLUGS_DIRECTORY[user] = list(hdr.pop('_dir'))
        groups = 'directory'
    if hdr.pop('_seam', None) == 'engine':
        return w.engine_direct(W.build_request(version, builder(), **hdr), (user, groups))
    return w.do(version, builder(), user=user, groups=groups, **hdr)


_SEED = None
_FRESH_CACHE = {}


def _seed_db():
    global _SEED
    if _SEED is None:
        _SEED = _seed_world()
    return _SEED


# ---- the fresh-engine answer comes from a PRISTINE process ---------------------------------------------
# A fresh engine in the same process would share every module-level and class-level object of the library
# (codec defaults, caches) with the engine that served the prefix: state leaking through them would
# pollute both runs alike. So each worker, before it serves its first request, forks a server that never
# serves one itself; per query the server forks a child that opens the database copy, answers the probe
# and exits.
_PRISTINE = {}


def _read_exact(fd, n):
    out = b''
    while len(out) < n:
        c = os.read(fd, n - len(out))
        if not c:
            raise EOFError
        out += c
    return out


def _send_msg(fd, obj):
    data = pickle.dumps(obj)
    os.write(fd, struct.pack('!I', len(data)) + data)


def _recv_msg(fd):
    n = struct.unpack('!I', _read_exact(fd, 4))[0]
    return pickle.loads(_read_exact(fd, n))


def _fresh_compute(db_path, t_probe, entropy, constant, probe):
    shapes.cap_streams()
    W.CLOCK.now = t_probe
    W.ENTROPY.counter = entropy
    W.ENTROPY.constant = constant
    fresh = W.World(policies=W.default_policies({'team': TEAM_POLICY}), db_from=db_path)
    try:
        rb = _apply(fresh, PROBE[probe])
        return (rb.key(), rb.brief(), fresh.raw_key())
    finally:
        fresh.close()


def _pristine_start():
    if _PRISTINE.get('owner') == os.getpid():
        return
    q_r, q_w = os.pipe()
    a_r, a_w = os.pipe()
    pid = os.fork()
    if pid == 0:
        os.close(q_w)
        os.close(a_r)
        try:
            while True:
                try:
                    msg = _recv_msg(q_r)
                except EOFError:
                    break
                r_, w_ = os.pipe()
                c = os.fork()
                if c == 0:
                    os.close(r_)
                    try:
                        res = ('ok', _fresh_compute(*msg))
                    except BaseException as e:   # noqa
                        res = ('err', '%s: %s' % (type(e).__name__, e))
                    try:
                        _send_msg(w_, res)
                    finally:
                        os._exit(0)
                os.close(w_)
                try:
                    res = _recv_msg(r_)
                except EOFError:
                    res = ('err', 'child died')
                os.close(r_)
                os.waitpid(c, 0)
                _send_msg(a_w, res)
        finally:
            os._exit(0)
    os.close(q_r)
    os.close(a_w)
    _PRISTINE.update(owner=os.getpid(), pid=pid, q=q_w, a=a_r)


def _fresh_answer(w, t_probe, entropy, probe):
    if _PRISTINE.get('owner') != os.getpid():
        raise RuntimeError("the pristine server must be started before the first request of this process")
    _send_msg(_PRISTINE['q'], (w.db, t_probe, entropy, W.ENTROPY.constant, probe))
    kind, res = _recv_msg(_PRISTINE['a'])
    if kind != 'ok':
        raise RuntimeError("pristine process failed: %s" % res)
    return res


def run_pair(prefix, probe, part=None):
    """Returns (violates, description)."""
    seed = _seed_db()
    W.CLOCK.now = W.T0
    w = seed.clone()
    try:
        pre_briefs = []
        for name in prefix:
            W.CLOCK.advance(1)
            pre_briefs.append(_apply(w, PREFIX[name]).brief())
        W.CLOCK.advance(1)
        t_probe = W.CLOCK.now
        entropy = W.ENTROPY.counter
        # the fresh-engine answer depends only on (database, clock, entropy, probe): memoise it
        db_before = w.raw_key()
        ck = (hash(db_before), len(db_before), t_probe, entropy, probe, len(prefix) <= 1)
        if ck in _FRESH_CACHE:
            rbk, rb_brief, sb = _FRESH_CACHE[ck]
        else:
            if len(prefix) <= 1:
                # a copy of the same database, a fresh engine and fresh sessions in a PRISTINE process
                # (every letter of the alphabet is followed by every probe this way; longer histories
                # use a fresh engine in this process, which costs a tenth)
                rbk, rb_brief, sb = _fresh_answer(w, t_probe, entropy, probe)
            else:
                fresh = w.clone()
                try:
                    rb = _apply(fresh, PROBE[probe])
                    rbk, rb_brief, sb = rb.key(), rb.brief(), fresh.raw_key()
                finally:
                    fresh.close()
            _FRESH_CACHE[ck] = (rbk, rb_brief, sb)
            W.CLOCK.now = t_probe
            W.ENTROPY.counter = entropy
        ra = _apply(w, PROBE[probe])
        sa = w.raw_key()
        bad = []
        if ra.key() != rbk:
            bad.append("response differs: after prefix %s, on fresh engine %s" % (
                ra.brief(), rb_brief))
        if sa != sb:
            bad.append("post-state differs from the fresh engine's")
        if part is not None:
            part.count('pairs')
            part.counters.setdefault('_outcomes', set()).add((probe, hash(ra.key()) % 100000))
        return bool(bad), "prefix=%s (%s) probe=%s: %s" % (
            list(prefix), pre_briefs, probe, '; '.join(bad) or 'same as fresh engine')
    finally:
        w.close()


def _key(prefix, probe):
    # identity of the failing case: the probe and the LAST prefix request (what leaks from where)
    return "probe=%s|after=%s" % (probe, prefix[-1] if prefix else '-')


CORE = ['a12.create', 'b20.create', 'a12.batch_create_get', 'a10.get_missing', 'e.a15.query',
        'a20.attr_list', 'b12.continue_fail_create']


def histories(tier):
    """Quick: every prefix of length 0..1, and length 2 with the first letter from CORE.
    Thorough: every prefix of length 0..2, and length 3 with the first two letters from CORE."""
    full = [k for k in PREFIX if k not in ID_FAMILY and k not in DIR_FAMILY]
    out = [()] + [(a,) for a in PREFIX]
    out += [(a, b) for a in DIR_FAMILY for b in DIR_FAMILY]
    # the identifier family: all histories of length 2 (and 3 in the thorough tier) among its letters
    out += [(a, b) for a in ID_FAMILY for b in ID_FAMILY]
    if tier != 'quick':
        out += [(a, b, c) for a in ID_FAMILY for b in ID_FAMILY for c in ID_FAMILY if len({a, b, c}) == 3]
    # second / third letters: everything but the less consequential header letters
    light = ('a12.stop', 'a12.order_true', 'a12.order_false', 'a12.maxsize_big', 'a12.async_false',
             'a12.timestamp', 'a12.ids_all', 'a20.continue', 'a12.continue')
    if tier == 'quick':
        out += [(a, b) for a in CORE for b in full if b not in light]
    else:
        out += [(a, b) for a in full for b in full if b not in light]
        out += [(a, b, c) for a in CORE for b in CORE for c in full if c not in light]
    return out


def _worker(task):
    _pristine_start()
    shapes.cap_streams()       # state that grows from request to request ends in an exception, not a hang
    hist, probes = task
    part = Part()
    for prefix in hist:
        for probe in probes:
            try:
                bad, text = run_pair(prefix, probe, part)
            except shapes.Runaway as e:
                part.violation("runaway-encoding|after=%s" % (prefix[-1] if prefix else '-'),
                               "prefix=%s probe=%s: %s - an encoding keeps growing from request to request "
                               "(state shared between requests in the codec)" % (list(prefix), probe, e),
                               {'prefix': list(prefix), 'probe': probe})
                return _finish(part, hist, probes)
            if bad:
                part.violation(_key(prefix, probe), text, {'prefix': list(prefix), 'probe': probe})
        part.count('prefixes')
    return _finish(part, hist, probes)


def _finish(part, hist, probes):
    part.sample({'prefix': list(hist[-1]), 'probe': probes[0]})
    out = part.as_dict()
    out['outcomes'] = sorted(part.counters.pop('_outcomes', set()))
    return out


def run(tier, seed):
    rep = Reporter('C11', 'model_checking', tier, seed)
    depth = 2 if tier == 'quick' else 3
    prefixes = list(PREFIX)
    probes = list(PROBE)
    hs = histories(tier)
    n = 64
    id_probes = [p_ for p_ in probes if p_.endswith(('_5', '_05', 'locate_k5'))] + [
        'a12.locate', 'a12.get', 'a12.create', 'a20.get_attribute_list']
    dir_probes = [p_ for p_ in probes if p_.startswith('d.')] + ['a12.locate', 'a12.get']
    dirh = [h for h in hs if len(h) >= 2 and all(x in DIR_FAMILY for x in h)]
    idh = [h for h in hs if len(h) >= 2 and all(x in ID_FAMILY for x in h)]
    rest = [h for h in hs if h not in set(idh) and h not in set(dirh)]
    general = [p_ for p_ in probes if p_ not in id_probes[:-4] and not p_.startswith('d.')]
    short = [h for h in rest if len(h) <= 1]
    longer = [h for h in rest if len(h) > 1]
    tasks = [(short[i::16], probes) for i in range(16) if short[i::16]]
    tasks += [(longer[i::n], general if tier == 'quick' else probes) for i in range(n) if longer[i::n]]
    tasks += [(idh[i::16], id_probes) for i in range(16) if idh[i::16]]
    tasks += [(dirh[i::8], dir_probes) for i in range(8) if dirh[i::8]]
    outcomes = set()
    for part in pmap(_worker, tasks):
        outcomes.update(tuple(o)
                        for o in part.pop('outcomes', []))
        rep.merge(part)
    pairs = rep.counters.get('pairs', 0)
    n_pref = rep.counters.get('prefixes', 0)
    if len(outcomes) < len(probes) + 5:
        rep.harness_error("vacuous exploration: only %d distinct probe outcomes" % len(outcomes))
    return rep.finish(dict(
        states=n_pref, transitions=pairs * 2, traces_validated_against_impl=pairs * 2,
        max_depth=depth, prefix_alphabet=len(prefixes), probes=len(probes),
        distinct_outcomes=len(outcomes), exhaustive=True,
        explanation="states = prefix histories (quick: all of length 0..1 and length 2 with the first request "
                    "from a 7-letter core; thorough: all of length 0..2 and length 3 with the first two "
                    "from the core; max_depth=%d, alphabet=%d); "
                    "per state every probe is executed twice on the real engine: after the prefix "
                    "and on a fresh engine over a copy of the same database" % (depth, len(prefixes)),
    ), assumptions=[
        "time and os.urandom are owned by the harness so that both runs see the same environment",
        "identifier-less Activate/Revoke cannot be sent: the server's decoder rejects them (see C01)",
    ])


def replay(doc):
    _pristine_start()
    bad, text = run_pair(tuple(doc['prefix']), doc['probe'])
    return bad, text
