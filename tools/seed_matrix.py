#!/venv/bin/python
"""Runs every stored seed (seeded/*/patch.diff) and every own mutant (mutants/*.diff) against the
check of its property and records the verdict: seeded/<name>/meta.json['checks_run'],
seeded/RESULTS.md and mutants/RESULTS.md. usage: seed_matrix.py [seeds|mutants|all]"""
import glob, json, os, re, subprocess, sys
from concurrent.futures import ThreadPoolExecutor
PAR = int(os.environ.get('SEED_MATRIX_PAR', '3'))
# seeds that break their property only in a way another property's check is the natural detector of
ALSO = {'C03-lock-only-around-batch': ['C10'], 'C13-lock-only-around-batch': ['C10'],
        'C03-parse-policy-shared-operation-dict': ['C18'], 'C08-lock-only-around-batch': ['C10'],
        'C03-locate-filters-before-access-check': ['C14'],
        'C11-lock-only-around-process-batch': ['C10'],
        'C05-locate-certificates-match-crypto-filters': ['C14'],
        'C19-mac-key-parameters-copied-from-encryption-key': ['C05']}
what = sys.argv[1] if len(sys.argv) > 1 else 'all'
rows = []
def run(patch, prop):
    r = subprocess.run(['/verif/tools/mutant.py', patch, prop], capture_output=True, text=True)
    lines = r.stdout.strip().splitlines()
    head = lines[0] if lines else 'no output'
    first = next((l.strip() for l in lines if l.strip().startswith('what:')), '')
    return head, first
if what in ('seeds', 'all'):
    out = ['| seed | property | verdict | first counterexample |', '|---|---|---|---|']
    dirs = sorted(glob.glob('/verif/seeded/*/'))
    only = os.environ.get('SEED_ONLY')       # comma-separated names: refresh just these (RESULTS.md is then merged)
    if only:
        dirs = [d for d in dirs if os.path.basename(d.rstrip('/')) in only.split(',')]
    def one(d):
        name = os.path.basename(d.rstrip('/')); prop = name.split('-')[0]
        head, first = run(d + 'patch.diff', prop)
        used = prop
        if 'DETECTED' not in head:
            for other in ALSO.get(name, []):
                h2, f2 = run(d + 'patch.diff', other)
                if 'DETECTED' in h2:
                    head, first, used = h2, f2, '%s (by %s)' % (prop, other)
        return d, name, used, head, first
    with ThreadPoolExecutor(PAR) as ex:
        results = list(ex.map(one, dirs))
    for d, name, prop, head, first in results:
        verdict = 'DETECTED' if 'DETECTED' in head else ('NOT APPLICABLE' if 'PATCH' in head else 'MISSED')
        m = json.load(open(d + 'meta.json')); m['checks_run'] = [head, first[:300]]; json.dump(m, open(d + 'meta.json', 'w'), indent=1)
        out.append('| %s | %s | %s | %s |' % (name, prop, verdict, first[6:200].replace('|', '\\|')))
        print(name, verdict)
    if only:
        old = [l for l in open('/verif/seeded/RESULTS.md').read().splitlines()[4:] if l.startswith('| ') and l.split('|')[1].strip() not in only.split(',')]
        out = out[:2] + sorted(old + out[2:])
    open('/verif/seeded/RESULTS.md', 'w').write('# Sub-agent seeded changes vs. the check of their property (quick tier, seed 0)\n\n' + '\n'.join(out) + '\n')
if what in ('mutants', 'all'):
    out = ['| mutant | property | verdict | first counterexample |', '|---|---|---|---|']
    def onem(p):
        name = os.path.basename(p)[:-5]; prop = name.split('_')[0].upper()
        return (name, prop) + run(p, prop)
    with ThreadPoolExecutor(PAR) as ex:
        mres = list(ex.map(onem, sorted(glob.glob('/verif/mutants/*.diff'))))
    for name, prop, head, first in mres:
        verdict = 'DETECTED' if 'DETECTED' in head else ('NOT APPLICABLE' if 'PATCH' in head else 'MISSED')
        out.append('| %s | %s | %s | %s |' % (name, prop, verdict, first[6:200].replace('|', '\\|')))
        print(name, verdict)
    open('/verif/mutants/RESULTS.md', 'w').write('# Own mutants vs. the check of their property (quick tier, seed 0)\n\n' + '\n'.join(out) + '\n')
