#!/bin/sh
# sweep.sh [tier] [seed] [checks...] - like run_all.sh but runs from the directory it lives in (so it
# works inside a `vp run` snapshot) and keeps evidence/replays/logs in ./sweep-out (never /verif/evidence).
cd "$(dirname "$0")/.." || exit 2
TIER=${1:-quick}; SEED=${2:-0}; shift; shift
CHECKS=${*:-C01 C02 C03 C04 C05 C06 C07 C08 C09 C10 C11 C12 C13 C14 C15 C16 C17 C18 C19 C20}
OUT=$PWD/sweep-out/$TIER-$SEED; mkdir -p "$OUT"
export VERIF_EVIDENCE_DIR=$OUT/evidence VERIF_REPLAY_DIR=$OUT/replays
for c in $CHECKS; do
  s=$(date +%s)
  VERIF_SEED=$SEED ./check $c --tier $TIER > "$OUT/$c.log" 2>&1; rc=$?
  e=$(date +%s)
  echo "$c tier=$TIER seed=$SEED exit=$rc $((e-s))s viol=$(grep -c '^VIOLATION' "$OUT/$c.log") known=$(grep -c '^KNOWN-FINDING' "$OUT/$c.log") harness=$(grep -c '^HARNESS-ERROR' "$OUT/$c.log")"
  tail -n 3 "$OUT/$c.log" | cut -c1-400
done
