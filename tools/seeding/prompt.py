import json,sys
pid, wt, focus = sys.argv[1], sys.argv[2], (sys.argv[3] if len(sys.argv)>3 else '')
p = next(json.loads(l) for l in open('/verif/properties.jsonl') if json.loads(l)['id']==pid)
print(f"""You are helping to evaluate a verification effort for the open-source project OpenKMIP/PyKMIP (a pure-Python KMIP implementation). Your job is to act as a realistic *bug seeder*.

You have your own scratch git worktree of the project at {wt} (work ONLY there; never touch /repo or /verif, never read anything under /verif). Python to use: /venv/bin/python (PyKMIP is installed editable pointing elsewhere, so ALWAYS run with PYTHONPATH={wt} so your tree is the one imported, and set PYTHONDONTWRITEBYTECODE=1).

Here is a semantic property of PyKMIP that is supposed to hold:

  Title: {p['title']}
  Statement: {p['statement']}
  Quantifier: {p.get('quantifier',{}).get('text','')}

{('Focus for this task: ' + focus) if focus else ''}

Task: make a small, realistic change to the PyKMIP source in your worktree (library code under kmip/, NOT tests) that BREAKS this property, while
  (1) the code still imports/compiles, and
  (2) the project's existing unit test suite still passes. Run it with:
        cd {wt} && PYTHONPATH={wt} PYTHONDONTWRITEBYTECODE=1 /venv/bin/python -m pytest -q -p no:cacheprovider --timeout=900 --continue-on-collection-errors kmip/tests/unit 2>&1 | tail -5
      (expect 3358 passed on the unchanged tree; integration tests need a live server and are irrelevant.) Do not edit, delete or skip any test.
  (3) The change must look like something a developer could plausibly commit (a refactor, an optimisation, a "cleanup", a cache, a reordered statement, an off-by-one, a shared mutable default, a moved commit, a relaxed guard...), not sabotage with an obvious marker. No comments that give it away.
  (4) IMPORTANT: the breakage must need something *specific* to manifest - a particular interleaving of threads, a crash or fault at a particular point, a multi-step sequence of operations, an unusual-but-legal input or parameter combination, a particular KMIP version, or two cooperating sites that each look fine alone. It must NOT be something that ordinary use (the first Create/Get/Register etc.) would expose at once.

Then write a demonstration: a self-contained script {wt}-out/demo.py (plain Python, run as `PYTHONPATH=<tree> /venv/bin/python demo.py`, no network, no live server; drive the library in-process, e.g. kmip.services.server.engine.KmipEngine with a temporary sqlite path, KmipSession with a fake connection, codec classes, the policy monitor, ProxyKmipClient with a fake socket...; note ssl.wrap_socket does not exist in this Python so you cannot start the real server/client sockets) that exits 0 when the property holds and exits non-zero (printing what went wrong) when it is violated. It must exit NON-ZERO with PYTHONPATH={wt} (your changed tree) and exit 0 with PYTHONPATH=/repo (the unchanged tree). Verify both yourself. Any temp files must be cleaned up by the demo.

Also write {wt}-out/meta.json with keys: "summary" (what you changed and why it looks plausible), "needs" (exactly what is needed for the violation to manifest), "files" (list of changed files).

NEVER use `git stash` (the stash is shared between worktrees); to run something against the unchanged code use PYTHONPATH=/repo. Do not reuse the well-known idea of sharing/deduplicating ObjectGroup rows between objects (already submitted by others). Leave your source change UNCOMMITTED in the worktree (I will take `git diff`). Keep the diff minimal (ideally < 30 changed lines). Before finishing, re-run the unit test suite on the final diff and confirm it still passes; report the final pass count, the diff, and the demo outputs on both trees. If your first idea is caught by the unit tests, try another idea rather than editing tests.""")
