#!/bin/sh
# run_all.sh [tier] [seed]  - runs every check in order, prints a one-line verdict each
cd /verif
TIER=${1:-quick}; SEED=${2:-0}
for c in C01 C02 C03 C04 C05 C06 C07 C08 C09 C10 C11 C12 C13 C14 C15 C16 C17 C18 C19 C20; do
  s=$(date +%s)
  VERIF_SEED=$SEED ./check $c --tier $TIER > /tmp/runall_$c.log 2>&1; rc=$?
  e=$(date +%s)
  echo "$c exit=$rc $((e-s))s viol=$(grep -c '^VIOLATION' /tmp/runall_$c.log) known=$(grep -c '^KNOWN-FINDING' /tmp/runall_$c.log) harness=$(grep -c '^HARNESS-ERROR' /tmp/runall_$c.log)"
done
