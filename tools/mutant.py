#!/venv/bin/python
"""Run checks against a patched scratch copy of /repo (never touches /repo).
usage: mutant.py <patch.diff> <Cnn> [<Cnn> ...] [--tier quick|thorough] [--tests] [--seeds 0,1]
Prints DETECTED / MISSED per check. Evidence and replays of these runs go to a scratch dir."""
import os, shutil, subprocess, sys, tempfile
args = sys.argv[1:]
tier = 'quick'; tests = False; seeds = ['0']
if '--tier' in args:
    i = args.index('--tier'); tier = args[i + 1]; del args[i:i + 2]
if '--seeds' in args:
    i = args.index('--seeds'); seeds = args[i + 1].split(','); del args[i:i + 2]
if '--tests' in args:
    args.remove('--tests'); tests = True
patch, checks = os.path.abspath(args[0]), args[1:]
d = tempfile.mkdtemp(prefix='verif-mut-', dir='/dev/shm')
try:
    subprocess.check_call(['git', '-C', '/repo', 'worktree', 'add', '-q', '--detach', d + '/tree', 'HEAD'])
    tree = d + '/tree'
    r = subprocess.run(['git', '-C', tree, 'apply', patch])
    if r.returncode:
        print("PATCH DOES NOT APPLY"); sys.exit(2)
    if tests:
        r = subprocess.run(['/verif/tools/baseline.py', tree], capture_output=True, text=True)
        print(r.stdout.strip())
    env = dict(os.environ, VERIF_REPO=tree, VERIF_EVIDENCE_DIR=d + '/ev', VERIF_REPLAY_DIR=d + '/rp',
               VERIF_TIER=tier)
    for c in checks:
        for s in seeds:
            env['VERIF_SEED'] = s
            r = subprocess.run(['/verif/check', c, '--tier', tier], env=env, capture_output=True, text=True)
            v = [l for l in r.stdout.splitlines() if l.startswith('VIOLATION')]
            verdict = 'DETECTED' if r.returncode == 1 and v else ('HARNESS-ERROR' if r.returncode == 2 else 'MISSED')
            print("%s seed=%s exit=%d %s (%d violation lines)" % (c, s, r.returncode, verdict, len(v)))
            for l in r.stdout.splitlines():
                if l.startswith('   what:') or l.startswith('HARNESS'):
                    print('     ', l.strip()[:300]); break
            if r.returncode == 2:
                print(r.stdout[-1500:], r.stderr[-1500:])
finally:
    subprocess.run(['git', '-C', '/repo', 'worktree', 'remove', '--force', d + '/tree'])
    shutil.rmtree(d, ignore_errors=True)
