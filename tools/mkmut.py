#!/venv/bin/python
"""mkmut.py <name> <file> <old> <new> [<file> <old> <new> ...]  -> mutants/<name>.diff (exact-string replacement, must be unique)"""
import os, subprocess, sys, tempfile, shutil
name = sys.argv[1]; triples = sys.argv[2:]
d = tempfile.mkdtemp(prefix='verif-mk-', dir='/dev/shm')
try:
    subprocess.check_call(['git', '-C', '/repo', 'worktree', 'add', '-q', '--detach', d + '/t', 'HEAD'])
    for i in range(0, len(triples), 3):
        f, old, new = triples[i:i + 3]
        p = os.path.join(d, 't', f); s = open(p).read()
        assert s.count(old) == 1, "%s: %d occurrences of %r" % (f, s.count(old), old)
        open(p, 'w').write(s.replace(old, new))
    diff = subprocess.check_output(['git', '-C', d + '/t', 'diff'])
    open('/verif/mutants/%s.diff' % name, 'wb').write(diff)
    print(diff.decode())
finally:
    subprocess.run(['git', '-C', '/repo', 'worktree', 'remove', '--force', d + '/t'])
    shutil.rmtree(d, ignore_errors=True)
