#!/venv/bin/python
"""Generates /verif/MANIFEST.json from the table below (single source of truth)."""
import json, os
ROOT = os.path.dirname(os.path.dirname(os.path.abspath(__file__)))

CHECKS = {
 'C11': dict(
    category='model_checking', design_ref='DESIGN.md 4/C11',
    technique='explicit-state exploration of the real session+engine: all (prefix history, probe) pairs within the depth bound, differential oracle against a fresh engine on a copy of the database',
    text='Prefix histories over a 22-letter alphabet of requests by three clients under 1.0-2.0 and unsupported versions (incl. requests rejected in the header and requests entering the engine API directly, without the codec) - quick: all of length 0..1 and length 2 with the first request from a 6-letter core; thorough: all of length 0..2 and length 3 with the first two from the core - are executed on the real session+engine; in every reached state each of 66 probes (identifier-less, version-sensitive, identity-sensitive) is run both there and on a fresh engine over a copy of the same database, and response and post-state must be identical. Exhaustive within the bound; a non-interference statement over histories that no finite set of unit tests covers.',
    note='Time and os.urandom are owned by the harness; RSA keys come from a pool. Identifier-less Activate/Revoke cannot be sent because the decoder rejects them. Transient state that only a longer history can create is not covered.'),
 'C04': dict(
    category='model_checking', design_ref='DESIGN.md 4/C04',
    technique='explicit-state BFS to fixpoint over the real engine per (object kind, usage-mask variant); thorough adds the unmerged depth-3 sequence tree with a differential check of the state abstraction',
    text='For each of 7 stored object kinds x 16 usage-mask variants every one of 26 actions (Activate, Revoke with each reason code, Destroy, Encrypt, Decrypt, Sign, SignatureVerify, MAC, DeriveKey as first/second base, Get wrapped by it, Set/Modify/DeleteAttribute aimed at State) is executed in every reachable lifecycle state of the real engine until no new state appears; every observed transition must be an allowed lifecycle edge and every succeeding cryptographic use must find the object Active, of the right kind and with the matching mask bit. Exhaustive over the reachable canonical state space, which is finite and reaches a fixpoint.',
    note='Canonical state = (kind, mask variant, lifecycle state | destroyed); soundness of merging is checked in the thorough tier by requiring equal answers from all depth-3 histories reaching the same canonical state. One object under test at a time; right-kind table and CA_COMPROMISE reading as in DESIGN.md 4a.'),
 'C18': dict(
    category='model_checking', design_ref='DESIGN.md 4/C18',
    technique='explicit-state BFS over file-event sequences on the real PolicyDirectoryMonitor and a real directory (state dedup on monitor structures + reference-model state), plus exhaustive 0/1/2-fault enumeration of policy documents against an independent parser',
    text='(i) Every sequence of up to 4 (quick) / 5 (thorough, 2 files) / 4 (thorough, 3 files) file events (write one of 9 contents, remove, and four simultaneous two-file changes; 24 events per step for 2 files) is applied to a real directory, each followed by a real scan_policies(); after every scan the store must equal the latest-loaded-definition reference model, the built-in policies must be identical objects, and nothing may be raised. (ii) Every policy document obtained from 5 documented shapes by 0, 1 or 2 structural faults at every JSON node, every truncation and character fault of the text, and a list of literal edge documents is parsed by read_policy_from_file and by an independent reference parser: valid documents must parse to the reference result, documents with a listed invalidity must be rejected, and no exception other than ValueError may escape.',
    note='mtimes are set by the harness (strictly increasing); canonical state includes the monitor structures and the model state, so merging is sound by construction; depth-bounded (the cache can grow without bound, so no fixpoint). Undocumented-but-harmless shapes (empty policy object, null/empty sections) may be accepted or rejected.'),
 'C07': dict(
    category='model_checking', design_ref='DESIGN.md 4/C07',
    technique='exhaustive depth-bounded tree of operation histories (create/register/keypair/derive/destroy by owner, permitted and denied non-owner/restart clean and kill) on the real engine with database cloning for prefix sharing',
    text='All sequences of up to 3 (quick) / 4 (thorough) actions over a 13-letter alphabet of creating and destroying operations by several clients and of clean/kill restarts, plus the complete family create+;destroy;restart?;create(;destroy;create) of longer histories, are executed on the real engine. After every step: all identifiers ever returned are pairwise distinct, no destroyed identifier has a row, Locate by each of three identities omits it, Get on it fails ITEM_NOT_FOUND for everyone; after each Destroy and each restart the full set of 13 object-addressing operations (plus use as wrapping key) is tried on the dead identifiers by every identity, and the rows of all other objects are compared before/after the Destroy.',
    note='Kill restart = fresh engine on the database file as it is between two requests; mid-operation crash points belong to C09. RSA generation served from a pool of real keys. Depth bound as stated.'),
 'C03': dict(
    category='model_checking', design_ref='DESIGN.md 4/C03',
    technique='exhaustive decision table on the real decision function against a reference model, plus explicit enumeration of (policy shape, identity, object kind, addressing operation) on clones of a real store with not-found indistinguishability, frame and owner invariants',
    text='(a) The complete product of policy name (absent/default/public/user) x 228 user-policy shapes (preset x group g1 x group g2 cell kinds incl. missing operation/type/group/section) x requester x 8 group lists x 9 object types x 14 operations is evaluated on the engine\'s real decision entry point and compared with a reference decision written from the statement (618k decisions). (b) For every decisive policy shape and for one-hot policies granting exactly one operation or exactly one object type, a real store is built through the session seam; from it every one of 7 identities performs Locate and each of 19 object-addressing requests (direct, crypto uses, DeriveKey first/second base, wrapping key) on every object kind, each on a clone: a request the reference denies must fail exactly like the same request for an identifier that never existed, carry no payload and leave the raw database bit-identical; a granted request must not be answered as not-found; Locate must list exactly the permitted objects; no owner column may change.',
    note='Operations without their own policy entry are judged under GET as the engine documents. An empty group list under a policy without group sections may be decided either way. Policy shapes are uniform over cells except for the one-hot policies, so call-site/operation confusions are covered by the one-hot family only.'),
 'C08': dict(
    category='model_checking', design_ref='DESIGN.md 4/C08',
    technique='exhaustive enumeration of batches (all item sequences up to length 3/4 over a 13/18-item alphabet x deviation-bounded header variants x initial stores) on the real session+engine with a batch model and a twin-engine differential oracle',
    text='Every sequence of 1..3 items over 13 (quick) / 18 (thorough, plus all length-4 sequences over 10) succeeding and failing batch items is sent as one request under every header variant with at most one deviation (two for length <= 2) from the default over batch-item-ID placement (all/none/missing on item k), error continuation option (absent/Stop/Continue/Undo), batch order option and initial store (Active key / Pre-Active key / empty). The response must be a prefix of the items in order with operation and ID echoed, stop at the first failure unless Continue, and carry a matching batch count; the final raw database must equal that of a twin engine to which only the successfully reported items were applied as single requests (placeholder substituted) and each reported result must equal the twin\'s - so a failed item left nothing, a reported success took full effect and no unreported item took effect.',
    note='os.urandom is replaced by a length-determined constant so batch and twin generate equal key material; logical clock. Request-level rejection is accepted for Undo and for a missing batch item ID only if nothing was executed.'),
 'C14': dict(
    category='model_checking', design_ref='DESIGN.md 4/C14',
    technique='exhaustive enumeration of Locate requests (ordered filter conjunctions x paging x requesters x versions) over store families built by real operations, against a reference matcher on an independent raw-SQLite snapshot',
    text='Four store families (mixed types/owners/policies/states with ties and gaps in initial dates; the same without certificates/opaque objects; a store of keys in every lifecycle state; empty) are built through the real session+engine. Every ordered conjunction of 0, 1 and 2 filters from a 39-entry menu over exactly the attributes the statement lists (matching some / matching none / inapplicable values; repeated and reversed date filters), triples containing a date range in every position (more triples in thorough), is sent by three requesters (incl. a group identity) under KMIP 1.2 and 2.0. The result must equal the set computed by the reference matcher and reference access decision on a snapshot read directly from SQLite, be ordered newest first, and for conjunctions of <= 1 filter every one of 35 (offset, maximum) pairs must return exactly that slice of the unpaged list and pages of size 1 and 2 must partition it.',
    note='Ties in initial date may come in any order (paging is compared with the unpaged answer of the same store). The Operation Policy Name filter is not sent under KMIP 2.0 because the codec refuses it. Stores are fixed families, not all stores.'),
 'C15': dict(
    category='model_checking', design_ref='DESIGN.md 4/C15',
    technique='explicit-state BFS (dedup on the full attribute snapshot of the whole store) over Set/Modify/DeleteAttribute sequences on the real engine, judged by an attribute-store model on a raw-SQLite snapshot, a whole-store frame condition and GetAttributes agreement',
    text='245 symbolic actions - Set/Modify/DeleteAttribute in the 1.x index form (index absent, 0, 1, last+1, -1) and the 2.0 current/new/reference form, values new / equal to current / duplicate of a sibling, for Name, Object Group, Application Specific Information and Sensitive, one form each for every other attribute name in the rule table and a custom name, by owner and non-owner - are applied in every state reached within depth 2 (quick) / 3 (thorough) from a store holding the target and a bystander with identical attribute values (all 7 object kinds as target; other kinds depth 1 / 2). In every state the nine never-alterable attributes and owners are unchanged; a successful call must address an existing, alterable instance and leave exactly the model\'s result on the target, nothing else changed on any object, and GetAttributes must agree; a failed call must leave the raw database identical.',
    note='Values the library cannot construct or refuses to encode for the version are skipped and counted. Index -1 and out-of-range indices are taken to address no instance. Canonical state = full attribute snapshot (no abstraction).'),
 'C10': dict(
    category='model_checking', design_ref='DESIGN.md 4/C10, 2.4',
    technique='stateless exploration of thread schedules of the real code under a controlled scheduler (CHESS-style iterative preemption bounding, bound 2; schedule points at lock operations, engine call/line trace events and session accesses to engine state) with a brute-force linearizability oracle',
    text='7 (quick) / 10 (thorough) harnesses of 2-4 real KmipSession threads with different identities and protocol versions, 1-2 requests each, share one real KmipEngine whose lock is replaced by a scheduler-aware re-entrant lock; only one thread runs at a time and every schedule with at most 2 preemptions (thorough: also with line-level schedule points, and bound 3 for two-thread harnesses) is executed. For each complete schedule the per-client responses and the final raw database must equal those of some serial order of the requests, consistent with each client\'s own order, executed on a fresh engine; deadlock, escaping exceptions and missing responses are violations; a failing schedule is replayed twice and must reproduce exactly before it is reported. Workloads force collisions on every per-request field of the shared engine (identity/owner, protocol version, attribute policy, ID placeholder, data session).',
    note='Preemption inside one source line and C-level races in SQLite/OpenSSL are not modelled; no race detector for Python exists in the image, so line-granular points on engine code are the substitute. The call event of the lock wrapper itself is not a separate point. os.urandom is a length-determined constant and time is frozen during a harness.'),
 'C09': dict(
    category='fault_enumeration', design_ref='DESIGN.md 4/C09, 2.5',
    technique='exhaustive crash-point enumeration of a fixed 26-operation workload on the real engine: every SQL statement/transaction boundary in process, and (thorough) a kill at every file-mutating syscall of the server process under strace fault injection; each survivor recovered by a fresh engine and compared with the reference states',
    text='A workload covering every state-changing operation the property names (Create, CreateKeyPair, Register of all seven object types with names/groups/application info, DeriveKey, Activate, Revoke, Destroy from several states, Set/Modify/DeleteAttribute in 1.x and 2.0 form, a batch) runs on the real engine. Quick: at every begin / before+after write statement / commit / rollback event and at request-received / before-response / after-acknowledge instants (316 points) the database and journal files are copied, which is exactly what a kill -9 leaves. Thorough: additionally the workload runs as a subprocess that is SIGKILLed on entry to its N-th pwrite64/fsync/fdatasync/ftruncate/unlink, for every N an un-faulted run performs (634 points). Every survivor must be opened and listed by a fresh KmipEngine, every listed object must be readable, every object must have all rows of its class chain, and with a operations acknowledged the observable store must equal reference state S_a or S_a+1 of an uncrashed run.',
    note='Process death, not power loss (page cache survives); torn single writes are outside the property. Values produced by OpenSSL RSA generation are compared by size only. Orphan per-class rows left by Destroy are unobservable and ignored. One fixed workload: crash points of operations or parameter shapes outside it are not covered.'),
 'C01': dict(
    category='exploration', design_ref='DESIGN.md 4/C01, 2.3, 2.7',
    technique='deviation-bounded exhaustive enumeration of constructible codec values (shape registry discovered from the constructors: presence lattice + value sweeps per class, boundary menus for primitives, request and server-emitted response messages) x 6 KMIP versions, judged by round-trip, idempotence, purity and an independent TTLV implementation',
    text='For each of 155 encodable structure/payload classes the value universe is discovered from the library itself (every constructor parameter is offered a typed universal menu; parameters without validation take the class their reader instantiates; attribute values come from a hand list). Enumerated per class and per KMIP version 1.0-2.0: all subsets of optional fields (n <= 10, else sizes 0,1,2,n-1,n) and every parameter through every admissible candidate with the other fields once absent and once full (about 50k round trips). Oracles: decoding the encoding succeeds, re-encoding reproduces the bytes, the decoded value equals the original by the class\'s own __eq__ (modulo fields the version does not define, proven by another version writing them), a set field reaches the wire under some version, encoding does not change the value (same bytes again after all versions). Primitives: hand-written boundary menus (length mod 8, sign/width boundaries, non-ASCII) under three tags, byte-identical to an independent TTLV encoder. Whole request messages for 34 operation shapes x header variants, and every response a real server emitted for a 52-request history, are decoded/encoded/decoded.',
    note='A refusal to encode (exception) is accepted for structures because per-field version tables are not modelled here (C16 covers the version-conditional fields the server uses); it is a violation for primitives. Classes without __eq__ are compared through their re-encoding. Values outside the discovered menus are not covered.'),
 'C02': dict(
    category='exploration', design_ref='DESIGN.md 4/C02',
    technique='exhaustive enumeration of emitted byte strings (C01 value universe x 6 versions; every response of a real session+engine over a history set covering all operations, error classes, rejections and failures x 6 versions) judged by an independent strict TTLV parser and envelope rules',
    text='(i) Every successful encoding of the C01 value universe (presence lattice and single-field sweeps of 155 classes under KMIP 1.0-2.0, about 14k byte strings) must be accepted by the independent strict parser (3-byte tag in 42xxxx/54xxxx, known type, fixed lengths for fixed-size types, zero padding to 8, structure length equal to its children, no trailing bytes) and re-encode canonically to the same bytes. (ii) For each version a real session+engine answers an ~85-request history: every operation succeeding, every error class (not found, permission, invalid field, illegal operation, wrong state, cryptographic failure, general failure, key format/compression, unsupported operation, index), batches with stop/continue, request-level rejections (Undo, asynchronous, stale/future timestamp, missing batch ID), undecodable frames, certificate/identity failures and oversize replacement. Every response must be strict TTLV and follow the envelope: header with exactly one protocol version, timestamp and batch count, count equal to the number (>= 1) of batch items, each item with a result status and with reason and message exactly when the status is not Success; the header version echoes the request whenever the library\'s own decoder accepts the frame and the version is supported.',
    note='The independent parser is the trusted reading of the TTLV definition. BigInteger length minimality is not demanded. For frames the server cannot decode and for certificate-stage failures only a supported version is demanded in the header. The other server checks (C08, C12, C13, C16) parse every response with the same strict parser as well.'),
 'C17': dict(
    category='fault_enumeration', design_ref='DESIGN.md 4/C17',
    technique='complete enumeration of the configuration product at the session seam (certificate shape x EKU x client-auth flag x plugin configuration x scripted SLUGS HTTP behaviours x request) on a real KmipSession with a spy in front of a real engine, against a reference of when an identity is established',
    text='The complete product of 10 certificate shapes (absent; 0, 1, 2 common names x EKU absent / serverAuth / clientAuth), enable_tls_client_auth on/off, 54 (quick) / 175 (thorough) plugin configurations (none, empty, disabled block, unsupported plugin, missing URL, wrong-case flag, one SLUGS block with each of 11 scripted HTTP behaviours - 200 with groups [], [g], several, missing key; user 404; groups 404; connection error on the first/second call; non-JSON body; HTTP 500 on either lookup - two and three blocks in all orders, enabled/disabled/unsupported mixes) and 3-5 requests is run through the real _handle_message_loop. The engine must be entered exactly once with exactly the established (common name, groups) identity when the reference says an identity is established, and never otherwise; then the answer must be AUTHENTICATION_NOT_SUCCESSFUL and the raw database unchanged.',
    note='SLUGS is replaced by scripted answers of the requests module inside auth/slugs.py; certificate validation by the ssl module itself is outside the session code. A SLUGS service is taken to vouch only with HTTP 200 on both lookups.'),
 'C13': dict(
    category='exploration', design_ref='DESIGN.md 4/C13',
    technique='deviation-bounded exhaustive grid of well-formed requests (operation x stored object kind x lifecycle state x KMIP version x per-operation parameter menu with one deviation from a valid request) executed on clones of a real store through the real session+engine',
    text='About 35k (quick) / 90k (thorough) requests, each encoded and re-decoded by the library\'s own codec (so well-formed by construction): for every object kind in pre-active and active state (plus keys without usage mask, deactivated, compromised) and a non-existent identifier, every addressing operation with its parameter menu - each key format / compression / wrapping method / mode / encoding variant of Get, every attribute name of the rule table and names outside it for Get/Modify/Set/DeleteAttribute with index menus in 1.x and 2.0 form, every member of the algorithm, block mode, padding, hashing, digital-signature and derivation enumerations (supported or not) for Encrypt/Decrypt/Sign/SignatureVerify/MAC/DeriveKey, IV/tag/data/signature length menus, absent optional parameters - plus object-free operations (Create and CreateKeyPair over every algorithm x length, Register of every kind with consistent and contradictory attributes, Locate with every attribute and paging extremes, Query, DiscoverVersions, operations the server does not implement). No answer may be General Failure and the engine\'s catch-all log record must not appear.',
    note='One deviation per probe; pairs of unusual parameters are not covered. Two genuine General Failure answers are recorded as open known findings (their repair is not small); 14 others were repaired in /repo.'),
}

NOT_YET = {}

def main():
    props = [json.loads(l)['id'] for l in open(os.path.join(ROOT, 'properties.jsonl'))]
    checks = []
    for pid in props:
        c = CHECKS.get(pid)
        if not c:
            continue
        checks.append({
            'property_id': pid,
            'quick_cmd': './check %s --tier quick' % pid,
            'thorough_cmd': './check %s --tier thorough' % pid,
            'evidence_file': '/verif/evidence/%s.json' % pid,
            'replay_cmd_template': './check %s --replay {path}' % pid,
            'engine': 'mc',
            'level_claimed': {'category': c['category'], 'text': c['text'], 'design_ref': c['design_ref']},
            'level_note': c['note'],
            'technique': c['technique'],
        })
    na = [{'property_id': p, 'reason': NOT_YET.get(p, 'check not built yet in this session (work in progress; design in DESIGN.md section 4)')}
          for p in props if p not in CHECKS]
    m = {
        'version': 1,
        'setup_cmd': 'true',
        'hooks': {
            'guard': 'PYKMIP_VERIF',
            'enable': 'none needed: no source hooks; checks import /repo (editable install in /venv) and patch module globals from the harness',
            'baseline_off_cmd': '/verif/tools/baseline.py /repo',
            'source_commits': [],
            'add_only': True,
        },
        'engines': [{
            'name': 'mc', 'path': '/verif/mc',
            'serves_properties': [c['property_id'] for c in checks],
            'kind_free_text': 'hand-written explicit-state / deviation-bounded / schedule / crash-point explorer driving the real PyKMIP code (Python), with independent reference models under mc/ref',
        }],
        'checks': checks,
        'not_applicable': na,
        'notes': 'See DESIGN.md. Every check: ./check <id> [--tier quick|thorough] [--replay file]; known findings in known_findings.json.',
    }
    json.dump(m, open(os.path.join(ROOT, 'MANIFEST.json'), 'w'), indent=1)
    print("MANIFEST: %d checks, %d not_applicable" % (len(checks), len(na)))

if __name__ == '__main__':
    main()
