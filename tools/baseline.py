#!/venv/bin/python
"""Run the repository's pinned test suite (guard OFF) on a tree and compare with BASELINE.json.
usage: baseline.py [repo_dir]   exit 0 iff every stable_pass test passed."""
import json, os, subprocess, sys, tempfile
import xml.etree.ElementTree as ET
repo = sys.argv[1] if len(sys.argv) > 1 else '/repo'
base = json.load(open('/root/.vp/BASELINE.json'))
out = tempfile.mktemp(suffix='.xml', dir='/dev/shm')
env = dict(os.environ); env.pop('PYKMIP_VERIF', None); env['PYTHONPATH'] = repo
env['PYTHONDONTWRITEBYTECODE'] = '1'
subprocess.run(['/venv/bin/python', '-m', 'pytest', '-q', '-p', 'no:cacheprovider', '--timeout=900',
                '--continue-on-collection-errors', '--junitxml=' + out], cwd=repo, env=env,
               stdout=subprocess.DEVNULL, stderr=subprocess.DEVNULL)
passed = set()
for tc in ET.parse(out).getroot().iter('testcase'):
    if not any(c.tag in ('failure', 'error', 'skipped') for c in tc):
        passed.add('%s::%s' % (tc.get('classname'), tc.get('name')))
os.unlink(out)
missing = [t for t in base['stable_pass'] if t not in passed]
print("baseline: %d stable tests, %d passed, %d missing" % (len(base['stable_pass']), len(base['stable_pass']) - len(missing), len(missing)))
for m in missing[:20]:
    print("  NOT PASSING:", m)
sys.exit(1 if missing else 0)
