#!/venv/bin/python
"""keep_seed.py <PROP> <seed-name> [check ids...]
Confirms a sub-agent's seeded change (worktree /tmp/seed/<PROP>, outputs /tmp/seed/<PROP>-out) myself:
 baseline suite on the changed tree, demo fails on changed tree, demo passes on /repo; then stores it
 under /verif/seeded/<seed-name>/ and runs the given checks (default: PROP) against it."""
import json, os, shutil, subprocess, sys
prop, name = sys.argv[1], sys.argv[2]
checks = [c for c in (sys.argv[3:] or [prop]) if c != 'NONE']
wt, out = '/tmp/seed/%s' % prop, '/tmp/seed/%s-out' % prop
dst = '/verif/seeded/%s' % name
env = dict(os.environ, PYTHONDONTWRITEBYTECODE='1')
diff = subprocess.check_output(['git', '-C', wt, 'diff'])
assert diff.strip(), "empty diff"
ran = []
r = subprocess.run(['/verif/tools/baseline.py', wt], capture_output=True, text=True)
ran.append({'cmd': '/verif/tools/baseline.py ' + wt, 'out': r.stdout.strip(), 'exit': r.returncode})
print(r.stdout.strip())
r1 = subprocess.run(['/venv/bin/python', out + '/demo.py'], env=dict(env, PYTHONPATH=wt), capture_output=True, text=True, cwd=out)
r0 = subprocess.run(['/venv/bin/python', out + '/demo.py'], env=dict(env, PYTHONPATH='/repo'), capture_output=True, text=True, cwd=out)
ran.append({'cmd': 'PYTHONPATH=<changed tree> python demo.py', 'exit': r1.returncode, 'out': r1.stdout[-600:]})
ran.append({'cmd': 'PYTHONPATH=/repo python demo.py', 'exit': r0.returncode, 'out': r0.stdout[-300:]})
print("demo on changed tree: exit %d; on /repo: exit %d" % (r1.returncode, r0.returncode))
ok = ran[0]['exit'] == 0 and r1.returncode != 0 and r0.returncode == 0
if not ok:
    print("NOT CONFIRMED - not kept"); sys.exit(1)
os.makedirs(dst, exist_ok=True)
open(dst + '/patch.diff', 'wb').write(diff)
shutil.copy(out + '/demo.py', dst + '/demo.py')
meta = {}
try:
    meta = json.load(open(out + '/meta.json'))
except Exception as e:
    meta = {'note': 'agent meta.json unreadable: %s' % e}
r = subprocess.run(['/verif/tools/mutant.py', dst + '/patch.diff'] + checks, capture_output=True, text=True) if checks else subprocess.run(['true'], capture_output=True, text=True)
print(r.stdout)
meta_out = {'property': prop[:3], 'summary': meta.get('summary'), 'needs': meta.get('needs'),
            'files': meta.get('files'), 'confirmed_by_me': ran,
            'checks_run': r.stdout.strip().splitlines()}
json.dump(meta_out, open(dst + '/meta.json', 'w'), indent=1)
