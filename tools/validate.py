#!/opt/veriftools/pyvenv/bin/python
import json, sys, glob, jsonschema
m = json.load(open('/verif/MANIFEST.json'))
jsonschema.validate(m, json.load(open('/root/.vp/MANIFEST.schema.json')))
es = json.load(open('/root/.vp/EVIDENCE.schema.json'))
bad = 0
for c in m['checks']:
    try:
        e = json.load(open(c['evidence_file']))
        jsonschema.validate(e, es)
        assert e['level'] == c['level_claimed']['category'], 'level mismatch'
        print('ok ', c['property_id'], e['tier'], e['wall_s'])
    except Exception as x:
        bad += 1; print('BAD', c['property_id'], str(x)[:300])
sys.exit(1 if bad else 0)
